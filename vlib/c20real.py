"""C20 clause 1, real-bridge tier: the derive is expanded by the real rustc (nightly, `-Zunpretty=expanded`) through the real
`proc_macro` bridge, inside rustc's own process, instead of through proc_macro2's fallback in gensim.

One run = one rustc process compiling a generated `lib.rs` with 1-5 modules, each holding one derive (a history of expansions in
one proc-macro host), under a seeded environment vector (envshim preloaded into rustc: hash seed, clock, pid, CPU count, short
reads / EINTR on the grammar file; environment variables; working directory; manifest root). Every module's expanded text must
equal the text of the same derive expanded alone in a neutral rustc process. Which thread expands is rustc's business and cannot
be chosen here; ill-formed grammars are left to gensim (a panicking derive makes rustc stop before printing).
"""
import concurrent.futures
import glob
import hashlib
import json
import os
import shutil
import subprocess
import uuid

from . import common as C
from . import c20

class HostUnavailable(Exception):
    """The nightly toolchain (needed only for -Zunpretty=expanded) cannot build the derive here."""


DUMMY_MANIFEST = """[package]
name = "rd"
version = "0.0.0"
edition = "2021"
[workspace]
[dependencies]
pest_typed = {{ path = "{repo}/main" }}
pest_typed_derive = {{ path = "{repo}/derive" }}
"""


def build_host():
    """Compile pest_typed and the derive with the nightly toolchain once; -> (rlib, proc-macro .so, deps dir)."""
    d = os.path.join(C.build_root(), "realbridge")
    os.makedirs(os.path.join(d, "src"), exist_ok=True)
    m = DUMMY_MANIFEST.format(repo=C.REPO)
    mp = os.path.join(d, "Cargo.toml")
    if not os.path.exists(mp) or open(mp).read() != m:
        open(mp, "w").write(m)
    lib = os.path.join(d, "src", "lib.rs")
    if not os.path.exists(lib):
        open(lib, "w").write("")
    lock = os.path.join(d, "Cargo.lock")
    if not os.path.exists(lock):
        shutil.copy(os.path.join(C.REPO, "Cargo.lock"), lock)
    env = C.cargo_env("")
    env["CARGO_TARGET_DIR"] = os.path.join(C.build_root(), "target-real")
    p = subprocess.run(["cargo", "+nightly", "build", "--offline", "--manifest-path", mp], env=env, stdout=subprocess.PIPE, stderr=subprocess.STDOUT, text=True)
    if p.returncode != 0:
        shutil.copy(os.path.join(C.REPO, "Cargo.lock"), lock)
        p = subprocess.run(["cargo", "+nightly", "build", "--offline", "--manifest-path", mp], env=env, stdout=subprocess.PIPE, stderr=subprocess.STDOUT, text=True)
    if p.returncode != 0:
        raise HostUnavailable("building the derive with the nightly toolchain failed: " + " | ".join(p.stdout.splitlines()[-6:]))
    deps = os.path.join(env["CARGO_TARGET_DIR"], "debug", "deps")

    def newest(pattern):
        c = sorted(glob.glob(os.path.join(deps, pattern)), key=os.path.getmtime)
        if not c:
            raise C.HarnessError("no %s in %s" % (pattern, deps))
        return c[-1]
    return newest("libpest_typed-*.rlib"), newest("libpest_typed_derive-*.so"), deps


def module_source(i, st):
    attrs = []
    gram = []
    if st["source"] == "file":
        n = st.get("pieces", 1)
        paths = [st["path"].replace(".pest", ".%d-%d.pest" % (n, k)) for k in range(n)] if n > 1 else [st["path"]]
        for pth in paths:
            gram.append("#[grammar = %s]" % json.dumps(pth))
    else:
        gram.append("#[grammar_inline = %s]" % rust_str(st["text"]))
    opts = ["#[%s]" % o for o in st["options"]]
    attrs = gram + opts if st.get("options_last", True) else opts + gram
    return "pub mod m%d {\n    use pest_typed_derive::TypedParser;\n    #[allow(dead_code)]\n    #[derive(TypedParser)]\n    %s\n    pub struct P;\n}\n" % (i, "\n    ".join(attrs))


def rust_str(s):
    out = ['"']
    for ch in s:
        if ch == "\\":
            out.append("\\\\")
        elif ch == '"':
            out.append('\\"')
        elif ch == "\n":
            out.append("\\n")
        elif ch == "\r":
            out.append("\\r")
        elif ch == "\t":
            out.append("\\t")
        else:
            out.append(ch)
    out.append('"')
    return "".join(out)


def key_of(st, root):
    k = {"name": st["name"], "source": st["source"], "options": st["options"], "options_last": st.get("options_last", True), "pieces": st.get("pieces", 1) if st["source"] == "file" else 1}
    if st["source"] == "file":
        k["root"] = root  # the real derive always embeds the absolute grammar path (include_str!)
    return json.dumps(k, sort_keys=True)


def split_modules(text, n):
    """-> {index: body text} of the top-level `pub mod mI { ... }` blocks of rustc's pretty-printed expansion."""
    out = {}
    lines = text.split("\n")
    cur, buf = None, []
    for l in lines:
        if cur is None:
            if l.startswith("pub mod m") and l.rstrip().endswith("{"):
                try:
                    cur = int(l[len("pub mod m"):].split(" ")[0])
                    buf = []
                except ValueError:
                    cur = None
        else:
            if l == "}":
                out[cur] = "\n".join(buf)
                cur = None
            else:
                buf.append(l)
    return out


def run_rustc(host, roots, shim, env_vec, steps):
    rlib, so, deps = host
    tag = uuid.uuid4().hex
    src = os.path.join(C.build_root(), "real-%s.rs" % tag)
    log = os.path.join(C.build_root(), "real-%s.log" % tag)
    open(src, "w").write("".join(module_source(i, st) for i, st in enumerate(steps)))
    env, cwd = c20.process_env(env_vec, roots, shim, log)
    env["PATH"] = os.environ.get("PATH", "/usr/bin:/bin")
    env["HOME"] = env.get("HOME", os.environ.get("HOME", "/root"))
    for k in ("RUSTUP_HOME", "CARGO_HOME", "RUSTUP_TOOLCHAIN"):
        if k in os.environ and k not in env:
            env[k] = os.environ[k]
    cmd = ["rustc", "+nightly", "--edition=2021", "--crate-type", "lib", "--crate-name", "rd", src, "-Zunpretty=expanded",
           "--extern", "pest_typed=" + rlib, "--extern", "pest_typed_derive=" + so, "-L", "dependency=" + deps]
    try:
        p = subprocess.run(cmd, env=env, cwd=cwd, stdout=subprocess.PIPE, stderr=subprocess.PIPE, timeout=300)
    except subprocess.TimeoutExpired:
        raise C.HarnessError("rustc did not come back within 300 s")
    finally:
        if os.path.exists(src):
            os.unlink(src)
    counters = {}
    if os.path.exists(log):
        for l in open(log):
            if l.startswith("SHIM "):
                for kv in l.split()[1:]:
                    k, v = kv.split("=")
                    counters[k] = counters.get(k, 0) + int(v)
        os.unlink(log)
    if p.returncode != 0:
        return None, counters, p.stderr.decode(errors="replace")
    mods = split_modules(p.stdout.decode("utf-8", errors="replace"), len(steps))
    return mods, counters, ""


def gen_real_run(seed, goods, texts, option_sets):
    r = c20.gen_run(seed, goods, goods, texts, option_sets, edits=False)  # no ill-formed grammars in this tier; seed-drawn (and edited) grammars are dropped below anyway
    steps = []
    for st in r["scenario"]["steps"][:5]:
        if st["name"].startswith("gen:"):
            # seed-drawn grammar programs whose expansion is rejected would stop rustc: keep only the fixed corpus here
            continue
        st = dict(st)
        st["include_grammar"] = True
        steps.append(st)
    if not steps:
        rng = C.SplitMix(seed ^ 0xABCDEF)
        name = rng.pick(goods)
        steps = [{"name": name, "source": "file", "path": "grammars/%s.pest" % name, "text": "", "options": list(rng.pick(option_sets)), "include_grammar": True,
                  "thread": 0, "options_last": True}]
    env = r["env"]
    # well-known variables that change how rustc itself prints or behaves are not the generator's business here
    env["well_known"] = {k: v for k, v in env["well_known"].items() if k not in ("RUSTFLAGS", "CARGO_ENCODED_RUSTFLAGS", "RUSTC", "RUST_LOG", "RUST_MIN_STACK", "HOME", "TMPDIR", "TERM", "COLUMNS")}
    env["stderr"] = "pipe"
    return {"env": env, "steps": steps}


def run(seed, n_runs, shim, roots, texts, goods):
    """-> (stats dict, [violation docs])"""
    host = build_host()
    base = C.mix(seed, C.tag("C20-real"))
    runs = [gen_real_run(C.mix(base, i), goods, texts, c20.OPTION_SETS) for i in range(n_runs)]
    refs = {}
    stats = {"rustc_runs": 0, "modules_expanded": 0, "reference_processes": 0, "rustc_rejected_runs": 0, "shim_calls_in_rustc": {}}

    def ref_for(key_step):
        key, st, root = key_step
        env = dict(c20.NEUTRAL_ENV)
        env["well_known"] = {}
        env["root"] = root if st["source"] == "file" else 0
        mods, counters, err = run_rustc(host, roots, shim, env, [st])
        if mods is None or 0 not in mods:
            return key, None
        return key, hashlib.sha256(mods[0].encode()).hexdigest()

    violations = []
    with concurrent.futures.ThreadPoolExecutor(max_workers=C.jobs()) as pool:
        results = list(pool.map(lambda r: run_rustc(host, roots, shim, r["env"], r["steps"]), runs))
        need = {}
        for r in runs:
            for st in r["steps"]:
                need.setdefault(key_of(st, r["env"]["root"]), (key_of(st, r["env"]["root"]), st, r["env"]["root"]))
        for key, digest in pool.map(ref_for, list(need.values())):
            refs[key] = digest
            stats["reference_processes"] += 1
        for r, (mods, counters, err), i in zip(runs, results, range(n_runs)):
            stats["rustc_runs"] += 1
            for k, v in counters.items():
                if k == "clock":
                    continue  # rustc reads the clock for its own self-profiling a timing-dependent number of times
                stats["shim_calls_in_rustc"][k] = stats["shim_calls_in_rustc"].get(k, 0) + v
            if mods is None:
                # rustc refused the crate: only a violation if every module is accepted alone
                if all(refs[key_of(st, r["env"]["root"])] is not None for st in r["steps"]):
                    violations.append(("rustc-rejects-history", i, r, err[-600:]))
                stats["rustc_rejected_runs"] += 1
                continue
            for j, st in enumerate(r["steps"]):
                stats["modules_expanded"] += 1
                key = key_of(st, r["env"]["root"])
                want = refs[key]
                if want is None:
                    continue
                got = hashlib.sha256(mods.get(j, "").encode()).hexdigest()
                if got != want:
                    violations.append(("real-output-differs", i, r, key))
    docs = []
    seen = set()
    for (cls, i, r, info) in violations:
        if cls in seen:
            continue
        seen.add(cls)
        # minimise: single modules, then neutral environment components
        small = json.loads(json.dumps(r))

        def still(cand):
            mods, _, _ = run_rustc(host, roots, shim, cand["env"], cand["steps"])
            if cls == "rustc-rejects-history":
                return mods is None
            if mods is None:
                return False
            for j, st in enumerate(cand["steps"]):
                k = key_of(st, cand["env"]["root"])
                if k not in refs:
                    refs[k] = ref_for((k, st, cand["env"]["root"]))[1]
                if refs[k] is not None and hashlib.sha256(mods.get(j, "").encode()).hexdigest() != refs[k]:
                    return True
            return False
        j = 0
        while j < len(small["steps"]) and len(small["steps"]) > 1:
            cand = json.loads(json.dumps(small))
            del cand["steps"][j]
            if still(cand):
                small = cand
            else:
                j += 1
        for k, v in c20.NEUTRAL_ENV.items():
            if k == "well_known":
                for name in sorted(small["env"].get("well_known", {})):
                    cand = json.loads(json.dumps(small))
                    del cand["env"]["well_known"][name]
                    if still(cand):
                        small = cand
                continue
            if small["env"].get(k) != v and not (k == "root" and any(s["source"] == "file" for s in small["steps"])):
                cand = json.loads(json.dumps(small))
                cand["env"][k] = v
                if still(cand):
                    small = cand
        if not still(small):
            raise C.HarnessError("real-bridge violation %s did not reproduce" % cls)
        for st in small["steps"]:
            st.pop("text", None)
        docs.append({"property": "C20", "class": cls, "subject": str(info)[:300], "kind": "rustc-run", "run": small, "count": sum(1 for v in violations if v[0] == cls)})
    return stats, docs


def replay(doc, shim, roots, texts):
    host = build_host()
    run_ = doc["run"]
    for st in run_["steps"]:
        st["text"] = c20.text_of(texts, st["name"]) if st["source"] == "inline" else ""
    mods, _, err = run_rustc(host, roots, shim, run_["env"], run_["steps"])
    if doc["class"] == "rustc-rejects-history":
        return mods is None
    if mods is None:
        return False
    for j, st in enumerate(run_["steps"]):
        env = dict(c20.NEUTRAL_ENV)
        env["well_known"] = {}
        env["root"] = run_["env"]["root"] if st["source"] == "file" else 0
        ref, _, _ = run_rustc(host, roots, shim, env, [st])
        if ref is not None and 0 in ref and ref[0] != mods.get(j, ""):
            return True
    return False
