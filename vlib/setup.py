"""`./check setup`: build the framework from files on disk only (offline)."""
import os
import subprocess

from . import common as C

RUNNERS = ["fmtsim", "parsesim", "gensim"]


def build_envshim():
    src = os.path.join(C.VERIF, "sim", "envshim", "envshim.c")
    if not os.path.exists(src):
        return None
    out_dir = os.path.join(C.VERIF, "build", "envshim")
    os.makedirs(out_dir, exist_ok=True)
    out = os.path.join(out_dir, "envshim.so")
    if os.path.exists(out) and os.path.getmtime(out) >= os.path.getmtime(src):
        return out
    p = subprocess.run(["gcc", "-O2", "-fPIC", "-shared", "-o", out, src, "-ldl"], stdout=subprocess.PIPE, stderr=subprocess.STDOUT, text=True)
    if p.returncode != 0:
        raise C.HarnessError("building envshim failed:\n" + p.stdout)
    return out


def run():
    os.environ["SIM_REPO"] = C.REPO
    os.environ["SIM_VERIF"] = C.VERIF
    build_envshim()
    for r in RUNNERS:
        C.require_build(r)
        C.say("built " + r)
    C.require_build("gensim", features=["extras"], variant="extras")
    C.say("built gensim (grammar-extras)")
    from . import c20real
    try:
        c20real.build_host()
        C.say("built the derive with the nightly toolchain (real-bridge tier)")
    except c20real.HostUnavailable as e:
        C.say("real-bridge tier unavailable: %s" % str(e)[:300])
    # option variants of parsesim used by the C20 configuration swarm (warm the per-variant target dirs)
    from . import c20
    bins, failed = c20.build_variants(list(c20.VARIANTS))
    C.say("built parsesim variants: %s; failed: %s" % (sorted(bins), sorted(failed)))
    return 0
