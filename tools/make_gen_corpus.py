#!/usr/bin/env python3
"""Writes corpus/gen/gNN.pest + corpus/gNN.seeds: grammar programs drawn from fixed seeds by vlib/gramgen.py, kept only
if the generator accepts them with the optimizer on and off. Run once; the files are committed (the corpus is fixed)."""
import json, os, subprocess, sys
VERIF = os.path.dirname(os.path.dirname(os.path.abspath(__file__)))
sys.path.insert(0, VERIF)
from vlib import gramgen, common as C
WANT = int(sys.argv[1]) if len(sys.argv) > 1 else 12
# second batch: "rich" shapes (skip-until, lookahead-dependent alternatives, PEEK slices, lookahead-only cycles, adjacent strings)
RICH = len(sys.argv) > 2 and sys.argv[2] == "rich"
FIRST = 13 if RICH else 1
gensim = C.require_build("gensim")
os.makedirs(os.path.join(VERIF, "corpus", "gen"), exist_ok=True)
root = os.path.join(VERIF, "build", "gensim-roots", "root0")
os.makedirs(root, exist_ok=True)
def esc(s): return s.replace('\\', '\\\\').replace('\n', '\\n').replace('\r', '\\r').replace('\t', '\\t')
kept = []
seed = 7000 if RICH else 5000
index_lines = []
while len(kept) < WANT:
    seed += 1
    g = gramgen.build(seed, rich=RICH)
    if len(g.rules) < 4:
        continue
    text = gramgen.render(g)
    ok = True
    for opts in ([], ["pest_optimizer = false"], ["box_only_if_needed", "emit_rule_reference"]):
        scn = {"heap_pre": [0, 0], "steps": [{"name": "g", "source": "inline", "path": "", "text": text, "options": opts, "include_grammar": False, "thread": 0}]}
        p = "/tmp/mkgen-scn.json"
        json.dump(scn, open(p, "w"))
        out = subprocess.run([gensim, "exec", "--scenario", p], env={"CARGO_MANIFEST_DIR": root}, stdout=subprocess.PIPE).stdout.decode()
        if "PANIC" in out or "STEP 0" not in out:
            ok = False
    if not ok:
        continue
    name = "g%02d" % (len(kept) + FIRST)
    open(os.path.join(VERIF, "corpus", "gen", name + ".pest"), "w").write("// drawn from seed %d by vlib/gramgen.py (tools/make_gen_corpus.py%s)\n" % (seed, ", rich shapes" if RICH else "") + text)
    rng = C.SplitMix(seed * 7919)
    lines = []
    for (i, mod, doc, body) in g.rules:
        seen = set()
        for _ in range(8):
            s = gramgen.sample(g, i, rng)
            if s not in seen and len(s) <= 40:
                seen.add(s)
                lines.append("r%d\t%s" % (i, esc(s)))
            if len(seen) >= 4:
                break
    for j in ["", "a", "(", "0x", "中", " "]:
        lines.append("*junk\t" + esc(j))
    open(os.path.join(VERIF, "corpus", name + ".seeds"), "w").write("\n".join(lines) + "\n")
    index_lines.append("%s\t@VERIF@/corpus/gen/%s.pest\t*\tnoopt_ok" % (name, name))
    kept.append(seed)
os.unlink("/tmp/mkgen-scn.json")
idx = os.path.join(VERIF, "corpus", "index.txt")
names = {l.split("\t")[0] for l in index_lines}
cur = [l for l in open(idx).read().splitlines() if l.split("\t")[0] not in names]
open(idx, "w").write("\n".join(cur + index_lines) + "\n")
print("kept seeds", kept)
