/* envshim — LD_PRELOAD shim that puts the process environment of the generator behind the simulator.
 *
 *   getrandom / getentropy : bytes from a SplitMix64 stream seeded by ENVSHIM_SEED (so std's RandomState
 *                            keys, and with them every HashMap/HashSet iteration order, are a function of the seed)
 *   clock_gettime / gettimeofday / time : simulated wall clock, base ENVSHIM_CLOCK_BASE, +ENVSHIM_CLOCK_STEP ns per read
 *   read                   : on descriptors whose path ends in ".pest": short reads (ENVSHIM_READ_SHORT = max chunk,
 *                            0 = off) and EINTR before every ENVSHIM_READ_EINTR-th call (0 = off)
 *   getpid / getppid       : ENVSHIM_PID / ENVSHIM_PID+1 when set (a fresh process otherwise gets an arbitrary pid)
 *   sched_getaffinity      : reports ENVSHIM_NCPU CPUs when set (std::thread::available_parallelism)
 * At exit the number of times each interposed call actually fired is appended to ENVSHIM_LOG.
 * Build: gcc -O2 -fPIC -shared -o envshim.so envshim.c -ldl
 */
#define _GNU_SOURCE
#include <dlfcn.h>
#include <errno.h>
#include <fcntl.h>
#include <sched.h>
#include <stdint.h>
#include <stdio.h>
#include <stdlib.h>
#include <string.h>
#include <sys/time.h>
#include <sys/types.h>
#include <time.h>
#include <unistd.h>

static uint64_t rng_state;
static int inited;
static uint64_t clock_base_ns, clock_step_ns, clock_reads;
static long read_short, read_eintr;
static long fake_pid, fake_ncpu;
static unsigned long n_getpid, n_affinity;
static unsigned long n_getrandom, n_getrandom_bytes, n_clock, n_read_pest, n_read_short, n_read_eintr;
static const char *log_path;
static ssize_t (*real_read)(int, void *, size_t);

static uint64_t splitmix(void) {
    rng_state += 0x9E3779B97F4A7C15ull;
    uint64_t z = rng_state;
    z = (z ^ (z >> 30)) * 0xBF58476D1CE4E5B9ull;
    z = (z ^ (z >> 27)) * 0x94D049BB133111EBull;
    return z ^ (z >> 31);
}

static uint64_t env_u64(const char *name, uint64_t dflt) {
    const char *v = getenv(name);
    if (!v || !*v) return dflt;
    return strtoull(v, NULL, 10);
}

static void dump(void) {
    if (!log_path) return;
    int fd = open(log_path, O_WRONLY | O_CREAT | O_APPEND, 0644);
    if (fd < 0) return;
    char buf[512];
    int n = snprintf(buf, sizeof buf,
                     "SHIM getrandom=%lu getrandom_bytes=%lu clock=%lu read_pest=%lu read_short=%lu read_eintr=%lu getpid=%lu sched_getaffinity=%lu\n",
                     n_getrandom, n_getrandom_bytes, n_clock, n_read_pest, n_read_short, n_read_eintr, n_getpid, n_affinity);
    if (n > 0) {
        ssize_t r = write(fd, buf, (size_t)n);
        (void)r;
    }
    close(fd);
}

static void init(void) {
    if (inited) return;
    inited = 1;
    rng_state = env_u64("ENVSHIM_SEED", 0);
    clock_base_ns = env_u64("ENVSHIM_CLOCK_BASE", 1700000000ull) * 1000000000ull;
    clock_step_ns = env_u64("ENVSHIM_CLOCK_STEP", 1000);
    read_short = (long)env_u64("ENVSHIM_READ_SHORT", 0);
    read_eintr = (long)env_u64("ENVSHIM_READ_EINTR", 0);
    fake_pid = (long)env_u64("ENVSHIM_PID", 0);
    fake_ncpu = (long)env_u64("ENVSHIM_NCPU", 0);
    log_path = getenv("ENVSHIM_LOG");
    real_read = (ssize_t(*)(int, void *, size_t))dlsym(RTLD_NEXT, "read");
    atexit(dump);
}

ssize_t getrandom(void *buf, size_t len, unsigned int flags) {
    (void)flags;
    init();
    n_getrandom++;
    n_getrandom_bytes += len;
    unsigned char *p = buf;
    size_t i = 0;
    while (i < len) {
        uint64_t v = splitmix();
        for (int k = 0; k < 8 && i < len; k++, i++) p[i] = (unsigned char)(v >> (8 * k));
    }
    return (ssize_t)len;
}

int getentropy(void *buf, size_t len) {
    if (len > 256) {
        errno = EIO;
        return -1;
    }
    getrandom(buf, len, 0);
    return 0;
}

static uint64_t now_ns(void) {
    init();
    n_clock++;
    return clock_base_ns + (clock_reads++) * clock_step_ns;
}

int clock_gettime(clockid_t id, struct timespec *ts) {
    (void)id;
    uint64_t t = now_ns();
    if (ts) {
        ts->tv_sec = (time_t)(t / 1000000000ull);
        ts->tv_nsec = (long)(t % 1000000000ull);
    }
    return 0;
}

int gettimeofday(struct timeval *tv, void *tz) {
    (void)tz;
    uint64_t t = now_ns();
    if (tv) {
        tv->tv_sec = (time_t)(t / 1000000000ull);
        tv->tv_usec = (suseconds_t)((t % 1000000000ull) / 1000);
    }
    return 0;
}

time_t time(time_t *out) {
    uint64_t t = now_ns();
    time_t s = (time_t)(t / 1000000000ull);
    if (out) *out = s;
    return s;
}

pid_t getpid(void) {
    init();
    n_getpid++;
    if (fake_pid) return (pid_t)fake_pid;
    static pid_t (*real)(void);
    if (!real) real = (pid_t(*)(void))dlsym(RTLD_NEXT, "getpid");
    return real();
}

pid_t getppid(void) {
    init();
    if (fake_pid) return (pid_t)(fake_pid + 1);
    static pid_t (*real)(void);
    if (!real) real = (pid_t(*)(void))dlsym(RTLD_NEXT, "getppid");
    return real();
}

int sched_getaffinity(pid_t pid, size_t size, cpu_set_t *mask) {
    init();
    n_affinity++;
    if (fake_ncpu && mask && size > 0) {
        memset(mask, 0, size);
        for (long i = 0; i < fake_ncpu && (size_t)i < size * 8; i++) CPU_SET_S((int)i, size, mask);
        return 0;
    }
    static int (*real)(pid_t, size_t, cpu_set_t *);
    if (!real) real = (int (*)(pid_t, size_t, cpu_set_t *))dlsym(RTLD_NEXT, "sched_getaffinity");
    return real(pid, size, mask);
}

static int is_pest_fd(int fd) {
    char link[64], path[4096];
    snprintf(link, sizeof link, "/proc/self/fd/%d", fd);
    ssize_t n = readlink(link, path, sizeof path - 1);
    if (n < 5) return 0;
    path[n] = 0;
    return strcmp(path + n - 5, ".pest") == 0;
}

ssize_t read(int fd, void *buf, size_t count) {
    init();
    if (!real_read) {
        errno = ENOSYS;
        return -1;
    }
    if ((read_short || read_eintr) && fd > 2 && is_pest_fd(fd)) {
        n_read_pest++;
        if (read_eintr && (n_read_pest % (unsigned long)read_eintr) == 0) {
            n_read_eintr++;
            errno = EINTR;
            return -1;
        }
        if (read_short && count > (size_t)read_short) {
            /* chunk length 1..read_short from the seeded stream */
            size_t c = 1 + (size_t)(splitmix() % (uint64_t)read_short);
            if (c < count) {
                count = c;
                n_read_short++;
            }
        }
    }
    return real_read(fd, buf, count);
}
