//! parsesim-miri — schedule dimension of C18: three real threads parse concurrently (one shared input
//! object, one private object each) under Miri's seeded, preemptive scheduler, which also reports data
//! races and undefined behaviour. Expected results are computed single-threaded first, in this process,
//! and compared structurally (==, hash, consumed offset, thin tokens); no string formatting in the loop.
//!
//! usage (argv, never plain env: cargo-miri replays build-time env): parsesim-miri <scenario 0..N>
use pest_typed::iterators::Pair;
use pest_typed::{Input, ParsableTypedNode, Span};
use pest_typed_derive::TypedParser;
use std::collections::hash_map::DefaultHasher;
use std::hash::{Hash, Hasher};
use std::sync::Arc;

#[allow(dead_code)]
#[derive(TypedParser)]
#[grammar_inline = r#"
p    = { PUSH("a") ~ "b" }
q    = { PEEK ~ "c" }
bal  = { PUSH(word) ~ "=" ~ PEEK ~ (";" ~ bal)? }
word = { ('a'..'z')+ }
s3   = _{ "a" ~ '0'..'9' ~ ^"k" }
num  = { ('0'..'9')+ }
nest = _{ "a" ~ num ~ "," ~ num }
e2   = { ("a" | "b") ~ ("c" | "d") ~ "abc" }
"#]
struct P;

fn h<T: Hash>(t: &T) -> u64 {
    let mut s = DefaultHasher::new();
    t.hash(&mut s);
    s.finish()
}

/// One operation's structural outcome.
#[derive(Clone, Debug, PartialEq, Eq)]
enum Out {
    P(Option<(usize, rules::p<'static>, u64)>),
    Q(bool),
    Bal(Option<(usize, u64, usize)>),
    S3(Option<(rules::s3<'static>, u64)>),
    Nest(Option<(rules::nest<'static>, u64)>),
    E2(bool, usize),
}

fn op(k: usize, shared: &'static str, private: &'static str) -> Out {
    match k % 8 {
        0 => Out::P(rules::p::try_parse_partial(Span::new(shared, 0, 2).unwrap()).ok().map(|(i, t)| {
            let hh = h(&t);
            (i.byte_offset(), t, hh)
        })),
        1 => Out::Q(rules::q::try_check(Span::new(shared, 3, 5).unwrap()).is_ok()),
        2 => Out::Bal(rules::bal::try_parse_partial(Span::new(shared, 6, shared.len()).unwrap()).ok().map(|(i, t)| (i.byte_offset(), h(&t), t.as_thin_token().children.len()))),
        3 => Out::S3(rules::s3::try_parse(Span::new(private, 0, 3).unwrap()).ok().map(|t| {
            let hh = h(&t);
            (t, hh)
        })),
        4 => Out::S3(rules::s3::try_parse(Span::new(private, 3, 6).unwrap()).ok().map(|t| {
            let hh = h(&t);
            (t, hh)
        })),
        5 => Out::Nest(rules::nest::try_parse(Span::new(private, 7, private.len()).unwrap()).ok().map(|t| {
            let hh = h(&t);
            (t, hh)
        })),
        6 => match rules::e2::try_parse(Span::new(shared, 0, 5).unwrap()) {
            Ok(_) => Out::E2(true, 0),
            Err(e) => Out::E2(false, match e.location { pest_typed::error::InputLocation::Pos(p) => p, pest_typed::error::InputLocation::Span((a, _)) => a }),
        },
        _ => Out::Q(rules::q::try_check_partial(shared).is_ok()),
    }
}

fn main() {
    let scenario: usize = std::env::args().nth(1).and_then(|s| s.parse().ok()).unwrap_or(0);
    // inputs live for the whole process (leaked): results may be moved between threads freely
    let shared: &'static str = Box::leak(String::from("ab ac x=x;yy=yy").into_boxed_str());
    let privates: Vec<&'static str> = (0..3).map(|i| &*Box::leak(format!("a{}ka{}K a1{},2", i, i + 1, i).into_boxed_str())).collect();
    // per-thread operation lists, rotated by the scenario number
    let plans: Vec<Vec<usize>> = (0..3).map(|t| (0..4).map(|j| (scenario * 3 + t * 5 + j * 3) % 8).collect()).collect();
    // reference: every operation alone, single-threaded, first
    let expected: Vec<Vec<Out>> = plans.iter().enumerate().map(|(t, pl)| pl.iter().map(|k| op(*k, shared, privates[t])).collect()).collect();
    let expected = Arc::new(expected);
    let mut handles = Vec::new();
    for t in 0..3 {
        let plan = plans[t].clone();
        let exp = expected.clone();
        let private = privates[t];
        handles.push(std::thread::spawn(move || {
            let mut bad = 0usize;
            for (j, k) in plan.iter().enumerate() {
                let got = op(*k, shared, private);
                if got != exp[t][j] {
                    bad += 1;
                }
                // I2/I3 on the fly: a clone equals its original and hashes equally
                if let Out::S3(Some((r, hh))) = &got {
                    let c = r.clone();
                    if c != *r || h(&c) != *hh {
                        bad += 1;
                    }
                }
            }
            bad
        }));
    }
    let bad: usize = handles.into_iter().map(|h| h.join().unwrap()).sum();
    if bad != 0 {
        println!("MISMATCH scenario={scenario} count={bad}");
        std::process::exit(1);
    }
    println!("OK scenario={scenario}");
}
