"""C18 — parse results are deterministic values, stable under clone, eq and hash; no state between calls.

Deciding step: seeded search over call histories (operations on 1-3 baton-scheduled OS threads, input
objects allocated/dropped/re-allocated at the same address) against the real derive-generated parsers
(runner sim/parsesim). Oracle: reference model "the same operation alone, first, in a fresh process"
(I1) plus in-process invariants I2-I5 over all live results.
"""
import json
import os
import subprocess

from . import common as C

PROP = "C18"
CHUNK = 20000


def sim_env():
    os.environ["SIM_REPO"] = C.REPO
    os.environ["SIM_VERIF"] = C.VERIF


def fanout(binary, cmds, tag):
    """Run one fresh child process per command; yields (index, exit code, [lines])."""
    path = os.path.join(C.build_root(), "fanout-%s-%d.txt" % (tag, os.getpid()))
    with open(path, "w") as f:
        for c in cmds:
            f.write("\t".join(c) + "\n")
    p = subprocess.run([binary, "fanout", "--jobs", str(C.jobs()), "--file", path], stdout=subprocess.PIPE, stderr=subprocess.PIPE, env={})
    os.unlink(path)
    if p.returncode != 0:
        raise C.HarnessError("parsesim fanout failed: " + p.stderr.decode(errors="replace")[-2000:])
    out = []
    cur = None
    idx = -1
    for line in p.stdout.decode("utf-8", errors="replace").split("\n"):
        if line == "TIMEOUT":
            raise C.HarnessError("a runner did not come back within 900 s (normal: milliseconds to a few seconds). Termination is not judged by this check; "
                                 "command: %s" % (" ".join(cmds[idx])[:300] if 0 <= idx < len(cmds) else tag))
        if line.startswith("BEGIN "):
            idx = int(line.split(" ")[1])
            cur = []
        elif line.startswith("END "):
            _, i, code = line.split(" ")
            out.append((int(i), int(code), cur))
            cur = None
        elif cur is not None:
            cur.append(line)
    if len(out) != len(cmds):
        raise C.HarnessError("fanout returned %d of %d results" % (len(out), len(cmds)))
    return out


def parse_run(lines):
    """-> (ops [(id, obshash, ok, prefix, nontrivial, key)], viols [json], probes {}, stderr [str])"""
    ops, viols, probes, err = [], [], {}, []
    for l in lines:
        if l.startswith("OP "):
            parts = l.split(" ", 7)
            ops.append((int(parts[1]), parts[2], parts[4] == "1", parts[5], parts[6] == "1", json.loads(parts[7]), parts[3]))
        elif l.startswith("VIOL "):
            viols.append(json.loads(l[5:]))
        elif l.startswith("PROBE "):
            probes = json.loads(l[6:])
        elif l.startswith("STDERR "):
            err.append(l[7:])
    return ops, viols, probes, err


def key_to_op(key):
    g, rule, entry, form, a, b, text = key.split("|", 6)
    return {"grammar": g, "rule": rule, "entry": entry, "form": form, "a": int(a), "b": int(b), "text": text}


class Refs:
    """I1's reference model: the observation of an operation executed alone, first, in a fresh process."""

    def __init__(self, binary):
        self.binary = binary
        self.map = {}
        self.processes = 0
        self.crash_alone = []

    def ensure(self, keys):
        need = sorted(k for k in keys if k not in self.map)
        if not need:
            return
        cmds = [["one", json.dumps(key_to_op(k), ensure_ascii=True)] for k in need]
        for (i, code, lines) in fanout(self.binary, cmds, "refs"):
            ops, viols, _, err = parse_run(lines)
            self.processes += 1
            if code != 0 or len(ops) != 1:
                # the operation kills the process even when it runs alone (e.g. unbounded recursion of a grammar that
                # is not well-founded): that is not a statement about histories, so it is recorded, never judged
                self.map[need[i]] = "CRASH-ALONE:%d" % code
                self.crash_alone.append(need[i])
                continue
            self.map[need[i]] = ops[0][1]


def run_scenario(binary, scenario, verbose=False):
    path = os.path.join(C.build_root(), "scenario-%d.json" % os.getpid())
    json.dump(scenario, open(path, "w"))
    cmd = [binary, "exec", "--scenario", path] + (["--verbose"] if verbose else [])
    p = subprocess.run(cmd, stdout=subprocess.PIPE, stderr=subprocess.PIPE, env={})
    os.unlink(path)
    lines = p.stdout.decode("utf-8", errors="replace").split("\n")
    return p.returncode, lines, p.stderr.decode(errors="replace")


def scenario_keys(sc):
    """Operation keys of a scenario, computed as the runner does (needed when the runner died before printing)."""
    slots, keys, byid = {}, [], {}
    for o in sc["ops"]:
        if o["op"] == "new_input":
            slots.setdefault(o["slot"], o["text"])
        elif o["op"] == "refill_input" and o["slot"] in slots:
            slots[o["slot"]] = o["text"]
        elif o["op"] == "drop_input":
            slots.pop(o["slot"], None)
        elif o["op"] == "parse" and o["slot"] in slots:
            text = slots[o["slot"]]
            n = len(text.encode())
            a, b = {"str": (0, n), "string": (0, n), "position": (o["a"], n), "span": (o["a"], o["b"])}[o["form"]]
            k = "|".join([o["grammar"], o["rule"], o["entry"], o["form"], str(a), str(b), text])
            byid[o["id"]] = k
            keys.append(k)
        elif o["op"] == "reparse" and o["of"] in byid:
            byid[o["id"]] = byid[o["of"]]
    return keys


def failure_classes(binary, refs, scenario):
    """All violation classes a scenario shows: [(class, key or type, detail)]."""
    rc, lines, err = run_scenario(binary, scenario)
    ops, viols, _, _ = parse_run(lines)
    if rc != 0:
        # the single operations must survive alone
        refs.ensure(set(scenario_keys(scenario)))
        if any(refs.map[k].startswith("CRASH-ALONE") for k in scenario_keys(scenario)):
            return []
        return [("runner-crash", "", {"exit": rc, "stderr": err[-500:]})]
    refs.ensure({o[5] for o in ops})
    found = []
    for (oid, oh, ok, prefix, nt, key, _sem) in ops:
        if refs.map[key] != oh:
            found.append(("history-dependent-result", key, {"op": oid}))
    for v in viols:
        found.append((v["class"], v["detail"].get("type", v["detail"].get("key", "")), v))
    return found


def minimise(binary, refs, scenario, cls, subject):
    """ddmin over operations, then neutralise environment perturbations, keeping the same violation."""
    def still(sc):
        return any(c == cls and s == subject for (c, s, _) in failure_classes(binary, refs, sc))

    cur = json.loads(json.dumps(scenario))
    n = 2
    ops = cur["ops"]
    while len(ops) >= 2:
        chunk = max(1, len(ops) // n)
        reduced = False
        for i in range(0, len(ops), chunk):
            cand = dict(cur)
            cand["ops"] = ops[:i] + ops[i + chunk:]
            if cand["ops"] and still(cand):
                cur = cand
                ops = cur["ops"]
                n = max(n - 1, 2)
                reduced = True
                break
        if not reduced:
            if chunk == 1:
                break
            n = min(len(ops), n * 2)
    for neutral in ({"heap_pre": [0, 0]}, {"threads": 1}):
        cand = dict(cur)
        cand.update(neutral)
        if "threads" in neutral:
            cand["ops"] = [dict(o, thread=0) if "thread" in o else o for o in cand["ops"]]
        if still(cand):
            cur = cand
    return cur


def miri_run(manifest_dir, miri_seed, scenario):
    env = dict(os.environ)
    env.update({"MIRIFLAGS": "-Zmiri-seed=%d -Zmiri-preemption-rate=0.1 -Zmiri-ignore-leaks" % miri_seed, "CARGO_NET_OFFLINE": "true",
                "CARGO_TARGET_DIR": os.path.join(C.build_root(), "target-miri"), "RUSTFLAGS": "--cfg " + C.GUARD})
    p = subprocess.run(["cargo", "+nightly", "miri", "run", "--offline", "--release", "-q", "--", str(scenario)], cwd=manifest_dir, env=env,
                       stdout=subprocess.PIPE, stderr=subprocess.PIPE, text=True)
    return p.returncode, p.stdout, p.stderr


def miri_tier(seed, n):
    """Schedule dimension: three threads parsing concurrently under Miri's seeded preemptive scheduler
    (which also reports data races and UB). -> (runs, [failures])"""
    import concurrent.futures
    C.require_build("parsesim-miri")  # generates the manifest (and proves the scenario passes natively)
    mdir = os.path.join(C.build_root(), "parsesim-miri")
    rc, out, err = miri_run(mdir, 0, 0)  # first run builds; serial
    if rc != 0 and "OK scenario" not in out and "MISMATCH" not in out and "Undefined Behavior" not in err and "Data race" not in err:
        raise C.HarnessError("miri tier could not be built/run:\n" + err[-1500:])
    base = C.mix(seed, C.tag("C18-miri"))
    jobs = [((C.mix(base, i) % 100000), i % 8) for i in range(n)]
    fails = []
    with concurrent.futures.ThreadPoolExecutor(max_workers=C.jobs()) as pool:
        for (ms, sc), (rc, out, err) in zip(jobs, pool.map(lambda j: miri_run(mdir, j[0], j[1]), jobs)):
            if rc == 0 and "OK scenario" in out:
                continue
            if "MISMATCH" in out:
                fails.append(("schedule-dependent-result", ms, sc, out.strip()))
            elif "Undefined Behavior" in err or "Data race" in err or "data race" in err:
                line = next((l for l in err.splitlines() if l.startswith("error")), "error")
                fails.append(("miri-ub-or-data-race", ms, sc, line))
            else:
                raise C.HarnessError("miri run failed for another reason (seed %d scenario %d):\n%s" % (ms, sc, err[-1500:]))
    return len(jobs), fails


def budget(tier):
    return {"quick": 6000, "thorough": 200000}[tier]


def run(tier, seed):
    t = C.Timer()
    sim_env()
    binary = C.require_build("parsesim")
    n_runs = budget(tier)
    base = C.mix(seed, C.tag("C18"))
    distinct = set()
    totals = {}
    evaluations = 0
    ops_total = 0
    failing = {}  # (variant, class, subject) -> [run seed, count]
    samples = []
    crashed = []
    phases = [("default", binary, Refs(binary), n_runs)]
    if tier == "quick":
        # node types that only the raw-AST path generates (RepeatMinMax, RepOnce) get a quarter of the quick budget
        from . import c20
        vbins, vfailed = c20.build_variants(["noopt"])
        if not vfailed:
            phases.append(("noopt", vbins["noopt"], Refs(vbins["noopt"]), n_runs // 4))
    if tier == "thorough":
        # the eq/hash/clone code of node types that only other option sets generate (RepeatMinMax and RepOnce nodes of
        # the raw-AST path, un-boxed rule structs) is reached by running the same history search on two more variants
        from . import c20
        vbins, vfailed = c20.build_variants(["noopt", "allon"])
        if vfailed:
            raise C.HarnessError("variant(s) %s do not build; C20 judges that, C18 cannot run on them" % sorted(vfailed))
        for vn in ("noopt", "allon"):
            phases.append((vn, vbins[vn], Refs(vbins[vn]), n_runs // 4))
    env_of = {v: (b, r) for (v, b, r, _) in phases}
    for (variant, vbin, refs, n_phase) in phases:
        pbase = base if variant == "default" else C.mix(base, C.tag(variant))
        for start in range(0, n_phase, CHUNK):
            seeds = [C.mix(pbase, r) for r in range(start, min(n_phase, start + CHUNK))]
            res = fanout(vbin, [["exec", "--seed", str(s)] for s in seeds], "runs")
            parsed = []
            keys = set()
            for (i, code, lines) in res:
                ops, viols, probes, err = parse_run(lines)
                if code != 0:
                    # the runner died (abort, signal) in the middle of a history; panics are caught per operation, so this
                    # is memory corruption or an abort. It is judged below: a violation only if every operation of the
                    # history survives alone in a fresh process and the crash reproduces.
                    crashed.append((variant, seeds[i], code, lines[-15:]))
                    continue
                parsed.append((seeds[i], ops, viols, probes))
                for o in ops:
                    keys.add(o[5])
            refs.ensure(keys)
            for (rs, ops, viols, probes) in parsed:
                evaluations += 1
                ops_total += len(ops)
                for k, v in probes.items():
                    totals[k] = max(totals.get(k, 0), v) if k.startswith("max_") else totals.get(k, 0) + v
                for (oid, oh, ok, prefix, nt, key, _sem) in ops:
                    if nt:
                        distinct.add(hash((variant, prefix, key)))
                    if refs.map[key] != oh:
                        f = failing.setdefault((variant, "history-dependent-result", key), [rs, 0])
                        f[1] += 1
                for v in viols:
                    subj = v["detail"].get("type", v["detail"].get("key", ""))
                    f = failing.setdefault((variant, v["class"], subj), [rs, 0])
                    f[1] += 1
            if start == 0 and variant == "default":
                for (rs, ops, viols, probes) in parsed[:2]:
                    sc = json.loads(subprocess.run([vbin, "gen", "--seed", str(rs)], stdout=subprocess.PIPE, env={}).stdout)
                    samples.append({"run_seed": rs, "threads": sc["threads"], "heap_pre": sc["heap_pre"], "history": sc["ops"]})
    runs_lost = 0
    for (variant, rs, code, tail) in crashed[:50]:
        vbin, refs = env_of[variant]
        sc = json.loads(subprocess.run([vbin, "gen", "--seed", str(rs)], stdout=subprocess.PIPE, env={}).stdout)
        refs.ensure(set(scenario_keys(sc)))
        if any(refs.map[k].startswith("CRASH-ALONE") for k in scenario_keys(sc)):
            runs_lost += 1
            continue  # explained by an operation that kills the process on its own
        rc1, _, err1 = run_scenario(vbin, sc)
        rc2, _, err2 = run_scenario(vbin, sc)
        if rc1 == 0 or rc2 == 0:
            raise C.HarnessError("runner died once (exit %d) for run seed %d but not when repeated: not deterministic\n%s" % (code, rs, "\n".join(tail)))
        failing.setdefault((variant, "runner-crash", ""), [rs, 0])[1] += 1
    # group failures by (variant, class); a known finding would be matched by class + rule
    known = C.known_for(PROP)
    groups = {}
    for (variant, cls, subj), (rs, cnt) in sorted(failing.items()):
        short = "|".join(subj.split("|")[:2]) if "|" in subj else subj
        gkey = (variant, cls, short if any(k["match"].get("class") == cls and k["match"].get("subject") == short for k in known) else "*")
        g = groups.setdefault(gkey, {"count": 0, "first": (rs, cls, subj), "subjects": []})
        g["count"] += cnt
        if short not in g["subjects"]:
            g["subjects"].append(short)
    new_violations = []
    known_hits = []
    MAX_REPORT = 12
    for gkey, g in list(groups.items())[:MAX_REPORT]:
        variant = gkey[0]
        vbin, refs = env_of[variant]
        rs, cls, subj = g["first"]
        sc = json.loads(subprocess.run([vbin, "gen", "--seed", str(rs)], stdout=subprocess.PIPE, env={}).stdout)
        small = minimise(vbin, refs, sc, cls, subj)
        found = [f for f in failure_classes(vbin, refs, small) if f[0] == cls and f[1] == subj]
        if not found:
            raise C.HarnessError("violation %s / %s from run seed %d did not reproduce in a fresh process" % (cls, subj, rs))
        name = C.safe_name("%s-seed%d-%s-%s-%s" % (tier, seed, variant, cls, gkey[2].replace("*", "all"))) + ".json"
        path = C.replay_path(PROP, name)
        doc = {"property": PROP, "class": cls, "subject": subj, "variant": variant, "group": [cls, gkey[2]], "count": g["count"], "seed": seed, "run_seed": rs, "tier": tier,
               "subjects": g["subjects"][:40], "scenario": small, "original_length": len(sc["ops"]), "detail": found[0][2],
               "reference": ({"key": subj, "observation_digest_alone_in_fresh_process": refs.map.get(subj)} if cls == "history-dependent-result" else None),
               "replay_cmd": "./check replay " + path}
        json.dump(doc, open(path, "w"), indent=1, ensure_ascii=False)
        k = next((k for k in known if k["match"].get("class") == cls and k["match"].get("subject", gkey[2]) == gkey[2]), None)
        if k:
            known_hits.append((k, doc, path))
        else:
            new_violations.append((doc, path))
    miri_runs = 0
    if tier == "thorough":
        miri_runs, mfails = miri_tier(seed, 384)
        seen = set()
        for (cls, ms, sc, msg) in mfails:
            if cls in seen:
                continue
            seen.add(cls)
            path = C.replay_path(PROP, C.safe_name("%s-seed%d-%s" % (tier, seed, cls)) + ".json")
            doc = {"property": PROP, "class": cls, "subject": "miri", "kind": "miri", "miri_seed": ms, "scenario_number": sc, "message": msg, "variant": "default",
                   "count": sum(1 for f in mfails if f[0] == cls), "subjects": ["sim/parsesim-miri scenario %d" % sc], "scenario": {"ops": []}, "original_length": 0,
                   "group": [cls, "miri"], "replay_cmd": "./check replay " + path}
            json.dump(doc, open(path, "w"), indent=1)
            new_violations.append((doc, path))
    for k, doc, path in known_hits:
        C.say("KNOWN-FINDING: property=%s %s [class=%s subject=%s]" % (PROP, k["what"], doc["class"], doc["group"][1]))
    for doc, path in new_violations:
        C.say("VIOLATION property=%s replay=%s" % (PROP, path))
        C.say("  class=%s variant=%s occurrences=%d minimised history: %d of %d operations; affected: %s" % (
            doc["class"], doc["variant"], doc["count"], len(doc["scenario"]["ops"]), doc["original_length"], ", ".join(doc["subjects"][:12])))
    if len(groups) > MAX_REPORT:
        C.say("  (%d further violation groups not minimised)" % (len(groups) - MAX_REPORT))
    wall = t.s()
    coverage = {
        "evaluations": evaluations,
        "distinct_nontrivial": len(distinct),
        "rule": ("one evaluation = one simulated run = one fresh process executing a seeded history of 4-16 operations (one run in forty: 48-197, one in four hundred: 1500-3000 operations) (new_input / drop_input / refill_input (same String overwritten in place) / parse via "
                 "try_parse|try_parse_partial|try_check|try_check_partial on &str|&String|Position|Span / reparse / clone / drop_result) on 1-3 baton-scheduled OS threads "
                 "against the derive-generated parsers of the corpus (corpus/index.txt); distinct_nontrivial = number of distinct (variant, digest of the history prefix, operation) "
                 "tuples whose operation was preceded in its run by an operation that used the stack grammar, failed, or freed an input object"),
        "samples": samples,
        "operations_observed": ops_total,
        "runs_per_variant": {v: n for (v, _, _, n) in phases},
        "reference_processes": sum(r.processes for (_, _, r, _) in phases),
        "distinct_operations": sum(len(r.map) for (_, _, r, _) in phases),
        "runs_lost_to_operations_that_crash_alone": runs_lost,
        "operations_that_crash_alone": sorted(set(k for (_, _, r, _) in phases for k in r.crash_alone))[:10],
        "miri_runs": miri_runs,
        "miri_note": "thorough tier only: 3 threads x 4 operations on one shared and three private input objects under Miri's seeded preemptive scheduler (-Zmiri-preemption-rate=0.1), release profile so the unchecked slicing paths run under the UB / data-race detector",
        "probes": totals,
        "runs_per_hour": int(evaluations / max(wall, 1e-9) * 3600),
        "simulated_time": "none: no component reads a clock; histories are ordered by operation index",
        "fault_kinds": {"input object freed and re-allocated (address reuse observed)": totals.get("address_reuse_after_drop", 0),
                        "operation handed to another OS thread": totals.get("ops_on_other_threads", 0),
                        "heap pre-allocation shifting addresses": "per run from the seed"},
        "real_components": ["pest_typed runtime", "pest_typed_derive / pest_typed_generator (at build time, through rustc)", "glibc allocator", "OS threads (baton-scheduled)"],
        "stubbed_components": ["address-space layout (ASLR switched off via personality(2))", "thread interleaving (exactly one thread runs, order from the seed)"],
    }
    C.write_evidence(PROP, tier, seed, "exploration", coverage,
                     ["corpus grammars are fixed files (rustc must compile them); histories are sampled, not enumerated",
                      "'structurally identical' is read as 'same Debug rendering', as the property says",
                      "nothing is asserted about results from two different input objects"],
                     wall, len(new_violations))
    return 1 if new_violations else 0


def replay(path):
    sim_env()
    doc = json.load(open(path))
    if doc.get("kind") == "miri":
        C.require_build("parsesim-miri")
        rc, out, err = miri_run(os.path.join(C.build_root(), "parsesim-miri"), doc["miri_seed"], doc["scenario_number"])
        C.say(out.strip())
        if rc != 0 and ("MISMATCH" in out or "Undefined Behavior" in err or "ata race" in err):
            C.say("\n".join(err.splitlines()[-12:]))
            C.say("REPRODUCED %s" % doc["class"])
            C.say("VIOLATION property=%s replay=%s" % (PROP, path))
            return 1
        C.say("NOT-REPRODUCED %s" % doc["class"])
        return 0
    variant = doc.get("variant", "default")
    if variant == "default":
        binary = C.require_build("parsesim")
    else:
        from . import c20
        bins, failed = c20.build_variants([variant])
        if failed:
            raise C.HarnessError("variant %s does not build" % variant)
        binary = bins[variant]
    refs = Refs(binary)
    found = failure_classes(binary, refs, doc["scenario"])
    hit = [f for f in found if f[0] == doc["class"] and f[1] == doc["subject"]]
    rc, lines, _ = run_scenario(binary, doc["scenario"], verbose=True)
    for l in lines:
        if l.startswith(("OBS", "VIOL")):
            C.say(l[:600])
    if hit:
        C.say("REPRODUCED %s %s" % (doc["class"], doc["subject"]))
        C.say("VIOLATION property=%s replay=%s" % (PROP, path))
        return 1
    C.say("NOT-REPRODUCED %s" % doc["class"])
    return 0
