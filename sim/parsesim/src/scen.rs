//! Scenarios: a history of operations against the parsers, drawn from one seed.
use crate::rng::SplitMix;
use crate::table::{Entry, Form, Grammar};
use serde_json::{json, Value};

#[derive(Clone, Debug)]
pub enum Op {
    /// Put a heap `String` with this text into `slot` (the slot must be empty). `reuse`: take the most recently
    /// freed buffer that is large enough (what an allocator does with a same-size request) instead of a fresh one.
    /// The simulator owns freed buffers, so address reuse is decided by the scenario, not by malloc's state.
    New { slot: usize, text: String, reuse: bool },
    /// Drop every result that borrows from the slot's input, then the input itself.
    DropInput { slot: usize },
    /// Drop every result that borrows from the slot's input, then overwrite the same `String` in place
    /// (`clear(); push_str(..)`): the classic reused line buffer. Same object, same address, new content.
    Refill { slot: usize, text: String },
    Parse { id: usize, slot: usize, g: String, rule: String, entry: Entry, form: Form, a: usize, b: usize, thread: usize },
    /// Repeat parse operation `of` on the very same input object.
    Reparse { id: usize, of: usize, thread: usize },
    CloneOf { id: usize, of: usize },
    DropResult { of: usize },
}

#[derive(Clone, Debug)]
pub struct Scenario {
    pub seed: u64,
    /// number and size of heap blocks allocated (and kept) before the first operation: shifts every later address
    pub heap_pre: (usize, usize),
    pub threads: usize,
    pub ops: Vec<Op>,
}

impl Op {
    pub fn to_json(&self) -> Value {
        match self {
            Op::New { slot, text, reuse } => json!({"op": "new_input", "slot": slot, "text": text, "reuse_freed_buffer": reuse}),
            Op::DropInput { slot } => json!({"op": "drop_input", "slot": slot}),
            Op::Refill { slot, text } => json!({"op": "refill_input", "slot": slot, "text": text}),
            Op::Parse { id, slot, g, rule, entry, form, a, b, thread } => {
                json!({"op": "parse", "id": id, "slot": slot, "grammar": g, "rule": rule, "entry": entry.name(), "form": form.name(), "a": a, "b": b, "thread": thread})
            }
            Op::Reparse { id, of, thread } => json!({"op": "reparse", "id": id, "of": of, "thread": thread}),
            Op::CloneOf { id, of } => json!({"op": "clone", "id": id, "of": of}),
            Op::DropResult { of } => json!({"op": "drop_result", "of": of}),
        }
    }
    pub fn from_json(j: &Value) -> Option<Op> {
        let u = |k: &str| j.get(k).and_then(|v| v.as_u64()).map(|v| v as usize);
        let s = |k: &str| j.get(k).and_then(|v| v.as_str()).map(|v| v.to_string());
        Some(match j.get("op")?.as_str()? {
            "new_input" => Op::New { slot: u("slot")?, text: s("text")?, reuse: j.get("reuse_freed_buffer").and_then(|v| v.as_bool()).unwrap_or(true) },
            "drop_input" => Op::DropInput { slot: u("slot")? },
            "refill_input" => Op::Refill { slot: u("slot")?, text: s("text")? },
            "parse" => Op::Parse {
                id: u("id")?,
                slot: u("slot")?,
                g: s("grammar")?,
                rule: s("rule")?,
                entry: Entry::from_name(&s("entry")?)?,
                form: Form::from_name(&s("form")?)?,
                a: u("a")?,
                b: u("b")?,
                thread: u("thread").unwrap_or(0),
            },
            "reparse" => Op::Reparse { id: u("id")?, of: u("of")?, thread: u("thread").unwrap_or(0) },
            "clone" => Op::CloneOf { id: u("id")?, of: u("of")? },
            "drop_result" => Op::DropResult { of: u("of")? },
            _ => return None,
        })
    }
}

impl Scenario {
    pub fn to_json(&self) -> Value {
        json!({"seed": self.seed, "heap_pre": [self.heap_pre.0, self.heap_pre.1], "threads": self.threads,
               "ops": self.ops.iter().map(|o| o.to_json()).collect::<Vec<_>>()})
    }
    pub fn from_json(j: &Value) -> Option<Scenario> {
        let hp = j.get("heap_pre").and_then(|v| v.as_array());
        let heap_pre = match hp {
            Some(a) if a.len() == 2 => (a[0].as_u64()? as usize, a[1].as_u64()? as usize),
            _ => (0, 0),
        };
        let mut ops = Vec::new();
        for o in j.get("ops")?.as_array()? {
            ops.push(Op::from_json(o)?);
        }
        Some(Scenario {
            seed: j.get("seed").and_then(|v| v.as_u64()).unwrap_or(0),
            heap_pre,
            threads: j.get("threads").and_then(|v| v.as_u64()).unwrap_or(1) as usize,
            ops,
        })
    }
}

struct SimSlot {
    g: usize,
    text: String,
    /// (rule hint, a, b) ranges in which a seed text sits
    pieces: Vec<(String, usize, usize)>,
    /// very large inputs are dropped after a few operations (every observation carries the text as part of its key)
    ops_left: Option<usize>,
}

fn boundaries(t: &str) -> Vec<usize> {
    let mut v: Vec<usize> = t.char_indices().map(|(i, _)| i).collect();
    v.push(t.len());
    v
}

/// A very large input the named rule accepts: `*long:<rule>` seeds are `prefix|unit|suffix`; the unit is repeated until the text
/// crosses a size where implementations change gear (4 KiB, 16 KiB, 64 KiB).
fn build_big_text(rng: &mut SplitMix, g: &Grammar) -> Option<(String, Vec<(String, usize, usize)>)> {
    let longs: Vec<&(String, String)> = g.seeds.iter().filter(|s| s.0.starts_with("*long:")).collect();
    if longs.is_empty() {
        return None;
    }
    let (tag, spec) = longs[rng.below(longs.len())];
    let rule = tag["*long:".len()..].to_string();
    let parts: Vec<&str> = spec.splitn(3, '|').collect();
    if parts.len() != 3 || parts[1].is_empty() {
        return None;
    }
    let target = [4_200usize, 16_500, 16_500, 66_000][rng.below(4)] + rng.below(64);
    let mut t = String::from(parts[0]);
    while t.len() < target {
        t.push_str(parts[1]);
    }
    t.push_str(parts[2]);
    let len = t.len();
    Some((t, vec![(rule, 0, len)]))
}

fn ordinary_seeds(g: &Grammar) -> Vec<usize> {
    (0..g.seeds.len()).filter(|i| !g.seeds[*i].0.starts_with("*long:")).collect()
}

fn build_text(rng: &mut SplitMix, g: &Grammar) -> (String, Vec<(String, usize, usize)>) {
    let k = 1 + rng.below(4);
    let seps = ["", " ", "\n", "#", "", "\n"];
    let mut text = String::new();
    let mut pieces = Vec::new();
    if rng.chance(1, 4) {
        text.push_str(seps[rng.below(seps.len())]);
    }
    // bias towards repeating the same rule: two results of one rule type from different sub-ranges
    let ord = ordinary_seeds(g);
    let first = ord[rng.below(ord.len())];
    for i in 0..k {
        let idx = if i > 0 && rng.chance(1, 2) {
            // another seed of the same rule as the first piece
            let rule = &g.seeds[first].0;
            let same: Vec<usize> = (0..g.seeds.len()).filter(|j| &g.seeds[*j].0 == rule).collect();
            same[rng.below(same.len())]
        } else if i == 0 {
            first
        } else {
            ord[rng.below(ord.len())]
        };
        let (rule, t) = &g.seeds[idx];
        let a = text.len();
        text.push_str(t);
        pieces.push((rule.clone(), a, text.len()));
        if i + 1 < k || rng.chance(1, 3) {
            if !g.literals.is_empty() && rng.chance(1, 4) {
                // a literal of the grammar (or a proper prefix of it) right behind the piece
                let l = g.literals[rng.below(g.literals.len())];
                let cut: Vec<usize> = l.char_indices().map(|(i, _)| i).skip(1).chain([l.len()]).collect();
                text.push_str(&l[..cut[rng.below(cut.len())]]);
            } else {
                text.push_str(seps[rng.below(seps.len())]);
            }
        }
    }
    (text, pieces)
}

/// Cut or pad `text` to exactly `want` bytes (pieces beyond the cut are dropped): a successor of the same
/// length lands in the same allocator size class and keeps every (address, length) key identical.
fn fit_length(rng: &mut SplitMix, text: String, pieces: Vec<(String, usize, usize)>, want: usize) -> (String, Vec<(String, usize, usize)>) {
    let mut t = text;
    if t.len() > want {
        let mut cut = want;
        while !t.is_char_boundary(cut) {
            cut -= 1;
        }
        t.truncate(cut);
    }
    while t.len() < want {
        t.push(['\n', ' ', 'x', '1'][rng.below(4)]);
    }
    let pieces = pieces.into_iter().filter(|p| p.2 <= t.len()).collect();
    (t, pieces)
}

fn is_seed_drawn(name: &str) -> bool {
    name.len() == 3 && name.starts_with('g') && name[1..].bytes().all(|b| b.is_ascii_digit())
}

/// Draw a whole scenario from `seed`. Pure: the same seed gives the same scenario in every process.
pub fn generate(seed: u64, grammars: &[Grammar]) -> Scenario {
    let mut rng = SplitMix(seed);
    let ng = grammars.len();
    // swarm: a random subset of grammars, per-run operation weights, thread count, length
    let n_enabled = 1 + rng.below(3.min(ng));
    let mut enabled: Vec<usize> = Vec::new();
    // grammars written for a purpose and the repository's own get two thirds of the picks, the seed-drawn ones a third
    let drawn: Vec<usize> = (0..ng).filter(|i| is_seed_drawn(grammars[*i].name)).collect();
    let written: Vec<usize> = (0..ng).filter(|i| !is_seed_drawn(grammars[*i].name)).collect();
    while enabled.len() < n_enabled {
        let pool = if written.is_empty() || (!drawn.is_empty() && rng.chance(1, 3)) { &drawn } else { &written };
        let g = pool[rng.below(pool.len())];
        if !enabled.contains(&g) {
            enabled.push(g);
        }
    }
    let threads = 1 + rng.below(3);
    // most runs are short; one in forty is a long history (a leak that needs many steps)
    // ... and one in four hundred a very long one (state that builds up over thousands of calls)
    let n_ops = if rng.chance(1, 400) { 1500 + rng.below(1500) } else if rng.chance(1, 40) { 48 + rng.below(150) } else { 4 + rng.below(13) };
    let w_parse = 4 + rng.below(8);
    let w_reparse = rng.below(4);
    let w_clone = rng.below(3);
    let w_new = 1 + rng.below(3);
    let w_dropin = rng.below(3);
    let w_dropres = rng.below(2);
    let heap_pre = if rng.chance(1, 2) { (0, 0) } else { (rng.below(40), 8 + rng.below(200)) };
    let mut ops: Vec<Op> = Vec::new();
    let mut slots: [Option<SimSlot>; 2] = [None, None];
    let mut next_id = 0usize;
    // (id, slot, is_parse_with_result_possible)
    let mut parses: Vec<(usize, usize)> = Vec::new();
    let mut results: Vec<(usize, usize)> = Vec::new();
    let mut last_dropped_len: Option<usize> = None;
    let mut last_stack_parse = false;
    let mut force_parse_on: Option<usize> = None;
    while ops.len() < n_ops {
        let live_slots: Vec<usize> = (0..2).filter(|i| slots[*i].is_some()).collect();
        let total = w_parse + w_reparse + w_clone + w_new + w_dropin + w_dropres;
        let mut r = rng.below(total);
        let mut choice = 0;
        for (i, w) in [w_parse, w_reparse, w_clone, w_new, w_dropin, w_dropres].iter().enumerate() {
            if r < *w {
                choice = i;
                break;
            }
            r -= *w;
        }
        if live_slots.is_empty() {
            choice = 3;
        }
        let forced = force_parse_on.take().filter(|s| slots[*s].is_some() && rng.chance(3, 4));
        if forced.is_some() {
            choice = 0;
        }
        match choice {
            0 => {
                let slot = forced.unwrap_or_else(|| live_slots[rng.below(live_slots.len())]);
                let s = slots[slot].as_ref().unwrap();
                // mostly a rule of the grammar the text was built for; sometimes any grammar
                // a very large input is only handed to the rule it was built for (a random rule of a random grammar on kilobytes
                // of text can take exponential time in some repository grammars; termination is not this check's business)
                let is_big = s.ops_left.is_some();
                let gi = if is_big || rng.chance(14, 15) { s.g } else { enabled[rng.below(enabled.len())] };
                let g = &grammars[gi];
                let bs = boundaries(&s.text);
                let len = s.text.len();
                let (rule, a, b, whole);
                let mode = if is_big { 0 } else { rng.below(10) };
                if mode < 7 && !s.pieces.is_empty() {
                    let (hint, pa, pb) = s.pieces[rng.below(s.pieces.len())].clone();
                    let use_hint = is_big || (gi == s.g && rng.chance(6, 7) && hint != "*junk");
                    // after a stack-using parse prefer another stack rule on a piece (push-leaving op before peek op)
                    rule = if use_hint && (is_big || !(last_stack_parse && rng.chance(1, 2))) { hint } else { g.entries[rng.below(g.entries.len())].rule.to_string() };
                    a = pa;
                    b = pb;
                    whole = false;
                } else if mode < 9 {
                    rule = g.entries[rng.below(g.entries.len())].rule.to_string();
                    a = 0;
                    b = len;
                    whole = true;
                } else {
                    rule = g.entries[rng.below(g.entries.len())].rule.to_string();
                    let x = bs[rng.below(bs.len())];
                    let y = bs[rng.below(bs.len())];
                    a = x.min(y);
                    b = x.max(y);
                    whole = false;
                }
                let entry = Entry::ALL[rng.below(4)];
                let form = if whole {
                    [Form::Str, Form::String, Form::Pos, Form::Span][rng.below(4)]
                } else if b == len && rng.chance(1, 2) {
                    Form::Pos
                } else if rng.chance(1, 5) {
                    Form::Pos
                } else {
                    Form::Span
                };
                let (a, b) = match form {
                    Form::Str | Form::String => (0, len),
                    Form::Pos => (a, len),
                    Form::Span => (a, b),
                };
                last_stack_parse = g.name == "stack";
                let id = next_id;
                next_id += 1;
                parses.push((id, slot));
                if matches!(entry, Entry::Parse | Entry::ParsePartial) {
                    results.push((id, slot));
                }
                if results.len() > 48 {
                    // keep the pairwise comparisons bounded in very long histories
                    let (of, _) = results.remove(0);
                    ops.push(Op::DropResult { of });
                }
                let mut drop_big = false;
                if let Some(n) = slots[slot].as_ref().and_then(|sl| sl.ops_left) {
                    drop_big = n <= 1;
                }
                let (gname, rule2, thread) = (g.name.to_string(), rule.clone(), rng.below(threads));
                ops.push(Op::Parse { id, slot, g: gname.clone(), rule, entry, form, a, b, thread });
                // twin: the same rule from the same start over a slightly shorter or longer sub-range (a result can
                // depend on what lies just beyond its end: lookahead, EOI)
                if form == Form::Span && rng.chance(1, 4) {
                    let after: Vec<usize> = bs.iter().copied().filter(|x| *x > a && *x != b && (*x as isize - b as isize).abs() <= 3).collect();
                    if !after.is_empty() {
                        let b2 = after[rng.below(after.len())];
                        let id2 = next_id;
                        next_id += 1;
                        parses.push((id2, slot));
                        results.push((id2, slot));
                        // half of the twins run on another thread (state shared between threads, keyed by per-thread counters)
                        let thread2 = if rng.chance(1, 2) { rng.below(threads) } else { thread };
                        let entry2 = if rng.chance(3, 4) { Entry::ParsePartial } else { Entry::ALL[rng.below(4)] };
                        ops.push(Op::Parse { id: id2, slot, g: gname, rule: rule2, entry: entry2, form: Form::Span, a, b: b2, thread: thread2 });
                    }
                }
                if let Some(sl) = slots[slot].as_mut() {
                    if let Some(n) = sl.ops_left.as_mut() {
                        *n = n.saturating_sub(1);
                    }
                }
                if drop_big {
                    // the very large input has had its few operations: free it (and what borrows from it)
                    if let Some(old) = slots[slot].take() {
                        last_dropped_len = Some(old.text.len());
                        parses.retain(|p| p.1 != slot);
                        results.retain(|p| p.1 != slot);
                        ops.push(Op::DropInput { slot });
                    }
                }
            }
            1 => {
                if parses.is_empty() {
                    continue;
                }
                let (of, slot) = parses[rng.below(parses.len())];
                let id = next_id;
                next_id += 1;
                results.push((id, slot));
                ops.push(Op::Reparse { id, of, thread: rng.below(threads) });
            }
            2 => {
                if results.is_empty() {
                    continue;
                }
                let (of, slot) = results[rng.below(results.len())];
                let id = next_id;
                next_id += 1;
                results.push((id, slot));
                ops.push(Op::CloneOf { id, of });
            }
            3 => {
                let slot = if slots[0].is_none() { 0 } else if slots[1].is_none() { 1 } else { rng.below(2) };
                let gi = enabled[rng.below(enabled.len())];
                let g = &grammars[gi];
                let mut best = build_text(&mut rng, g);
                let mut big = false;
                if n_ops < 200 && rng.chance(1, 40) {
                    // a very large input (never inside the very long histories: cost) (one successful parse of it is the "unusual earlier call" of many optimisations)
                    if let Some(b) = build_big_text(&mut rng, g) {
                        best = b;
                        big = true;
                    }
                }
                if let Some(old) = slots[slot].take() {
                    last_dropped_len = Some(old.text.len());
                    parses.retain(|p| p.1 != slot);
                    results.retain(|p| p.1 != slot);
                    // successor of exactly the same byte length in two cases out of three
                    // (never after a very large input: kilobytes of padding are not an input any rule was written for, and some
                    // repository grammars backtrack exponentially on them)
                    if !big && old.text.len() <= 256 && rng.chance(2, 3) {
                        best = fit_length(&mut rng, best.0, best.1, old.text.len());
                    }
                    if rng.chance(1, 2) {
                        // the same String object overwritten in place
                        ops.push(Op::Refill { slot, text: best.0.clone() });
                        slots[slot] = Some(SimSlot { g: gi, text: best.0, pieces: best.1, ops_left: if big { Some(3) } else { None } });
                        force_parse_on = Some(slot);
                        continue;
                    }
                    ops.push(Op::DropInput { slot });
                } else if let Some(want) = last_dropped_len {
                    if !big && want <= 256 && rng.chance(1, 2) {
                        best = fit_length(&mut rng, best.0, best.1, want);
                    }
                }
                ops.push(Op::New { slot, text: best.0.clone(), reuse: rng.chance(4, 5) });
                slots[slot] = Some(SimSlot { g: gi, text: best.0, pieces: best.1, ops_left: if big { Some(3) } else { None } });
                // place the next operation inside the state just created
                force_parse_on = Some(slot);
            }
            4 => {
                let slot = live_slots[rng.below(live_slots.len())];
                let old = slots[slot].take().unwrap();
                last_dropped_len = Some(old.text.len());
                parses.retain(|p| p.1 != slot);
                results.retain(|p| p.1 != slot);
                ops.push(Op::DropInput { slot });
            }
            _ => {
                if results.is_empty() {
                    continue;
                }
                let i = rng.below(results.len());
                let (of, _) = results.remove(i);
                ops.push(Op::DropResult { of });
            }
        }
    }
    Scenario { seed, heap_pre, threads, ops }
}
