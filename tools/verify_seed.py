#!/usr/bin/env python3
"""verify_seed.py <id> <property> <OUT dir> <demo file in OUT> <destination path in the worktree> -- <demo command...>
Confirms a seeded property-breaking change in a fresh scratch worktree of /repo (outside /repo and /verif):
  clean tree: demo passes;  patched tree: repository suite green, demo fails;  then runs ./check <property> against the
  patched tree (quick tier) and records everything in /verif/seeded/<id>/{patch.diff, demo, meta.json}.
The worktree and every build output made for it are removed afterwards."""
import hashlib, json, os, shutil, subprocess, sys, tempfile, time

args = sys.argv[1:]
sep = args.index("--")
sid, prop, outdir, demo, dest = args[:sep]
cmd = args[sep + 1:]
VERIF = os.path.dirname(os.path.dirname(os.path.abspath(__file__)))
needs = os.environ.get("SEED_NEEDS", "")
W = tempfile.mkdtemp(prefix="seedchk-", dir="/tmp"); os.rmdir(W)
subprocess.check_call(["git", "-C", "/repo", "worktree", "add", "--detach", "-q", W, "HEAD"])
shutil.copy("/repo/Cargo.lock", W)
env = dict(os.environ, CARGO_NET_OFFLINE="true", CARGO_TARGET_DIR=os.path.join(W, "target"))
meta = {"id": sid, "property": prop, "needs_to_manifest": needs, "demo": demo, "demo_destination": dest, "demo_command": " ".join(cmd), "ran": []}
def run(c, **kw):
    p = subprocess.run(c, cwd=W, env=env, stdout=subprocess.PIPE, stderr=subprocess.STDOUT, text=True, **kw)
    return p.returncode, p.stdout
try:
    destp = os.path.join(W, dest)
    os.makedirs(os.path.dirname(destp), exist_ok=True)
    shutil.copy(os.path.join(outdir, demo), destp)
    rc, out = run(cmd)
    meta["demo_on_clean_tree"] = "passes" if rc == 0 else "FAILS"
    meta["ran"].append("clean tree: %s -> exit %d" % (" ".join(cmd), rc))
    os.unlink(destp)
    rc, out = run(["git", "apply", os.path.join(outdir, "patch.diff")])
    assert rc == 0, "patch does not apply: " + out
    rc, out = run(["cargo", "nextest", "run", "--workspace", "--no-fail-fast", "--offline"])
    summ = [l for l in out.splitlines() if "Summary" in l]
    meta["suite_with_change"] = (summ[-1].strip() if summ else "no summary") + (" (exit %d)" % rc)
    meta["ran"].append("patched tree: cargo nextest run --workspace --no-fail-fast --offline -> exit %d" % rc)
    shutil.copy(os.path.join(outdir, demo), destp)
    rc, out = run(cmd)
    meta["demo_with_change"] = "fails" if rc != 0 else "PASSES"
    meta["ran"].append("patched tree: %s -> exit %d" % (" ".join(cmd), rc))
    os.unlink(destp)
    t = time.time()
    p = subprocess.run([os.path.join(VERIF, "check"), prop, "--tier", "quick"], cwd=VERIF, env=dict(os.environ, VERIF_REPO=W), stdout=subprocess.PIPE, stderr=subprocess.STDOUT, text=True)
    lines = [l for l in p.stdout.splitlines() if not l.startswith("KNOWN-FINDING")]
    meta["check_quick"] = {"exit": p.returncode, "detected": p.returncode == 1 and any(l.startswith("VIOLATION property=" + prop) for l in lines), "output": lines[:12], "wall_s": round(time.time() - t, 1)}
    meta["ran"].append("VERIF_REPO=<patched tree> ./check %s --tier quick -> exit %d" % (prop, p.returncode))
    if os.environ.get("SEED_THOROUGH") and not meta["check_quick"]["detected"]:
        p = subprocess.run([os.path.join(VERIF, "check"), prop, "--tier", "thorough"], cwd=VERIF, env=dict(os.environ, VERIF_REPO=W), stdout=subprocess.PIPE, stderr=subprocess.STDOUT, text=True)
        lines = [l for l in p.stdout.splitlines() if not l.startswith("KNOWN-FINDING")]
        meta["check_thorough"] = {"exit": p.returncode, "detected": p.returncode == 1, "output": lines[:12]}
    d = os.path.join(VERIF, "seeded", sid)
    os.makedirs(d, exist_ok=True)
    shutil.copy(os.path.join(outdir, "patch.diff"), d)
    shutil.copy(os.path.join(outdir, demo), d)
    if os.path.exists(os.path.join(outdir, "notes.md")):
        shutil.copy(os.path.join(outdir, "notes.md"), d)
    json.dump(meta, open(os.path.join(d, "meta.json"), "w"), indent=1)
    print(json.dumps({k: meta[k] for k in ("demo_on_clean_tree", "suite_with_change", "demo_with_change", "check_quick")}, indent=1))
finally:
    h = hashlib.sha256(W.encode()).hexdigest()[:12]
    shutil.rmtree(os.path.join(VERIF, "build", "alt-" + h), ignore_errors=True)
    subprocess.call(["git", "-C", "/repo", "worktree", "remove", "--force", W])
    shutil.rmtree(W, ignore_errors=True)
