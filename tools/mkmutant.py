#!/usr/bin/env python3
"""mkmutant.py <out.patch> <file> <<< python snippet transforming `s` (the file's text).
Creates the patch against /repo HEAD in a scratch worktree (removed afterwards)."""
import subprocess, sys, tempfile, os, shutil
out, rel = sys.argv[1], sys.argv[2]
code = sys.stdin.read()
w = tempfile.mkdtemp(prefix="mkmut-", dir="/tmp"); os.rmdir(w)
subprocess.check_call(["git", "-C", "/repo", "worktree", "add", "--detach", "-q", w, "HEAD"])
try:
    p = os.path.join(w, rel)
    s = open(p).read()
    env = {"s": s}
    exec(code, env)
    assert env["s"] != s, "snippet changed nothing"
    open(p, "w").write(env["s"])
    diff = subprocess.check_output(["git", "-C", w, "diff"])
    open(out, "wb").write(diff)
    print("wrote", out, len(diff), "bytes")
finally:
    subprocess.call(["git", "-C", "/repo", "worktree", "remove", "--force", w])
    shutil.rmtree(w, ignore_errors=True)
