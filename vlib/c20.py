"""C20 — generation is deterministic; options change representation only.

Clause 1 ("the derive emits the same code on every run", "repeated generator runs in separate processes")
is decided by simulation: the real generator (runner sim/gensim) is run in fresh processes whose
environment is owned by the simulator (envshim.so: entropy => HashMap order, clock, read chunking/EINTR;
personality(2): ASLR off; seeded heap ballast, environment size, working directory, manifest root,
calling thread, expansion history incl. panicking expansions). Oracle J1/J2: every expansion equals the
expansion of the same (grammar, options) alone in a fresh neutral process.

Clause 2 (options change neither acceptance nor offsets nor pair tree; recursive grammars compile with
reduced boxing) has no schedule/fault/history: it is covered as a configuration swarm — the parsesim
runner is compiled once per option variant and identical seeded operation lists are executed in all of
them (J3); a variant that does not compile while the default does is a violation (J4).
"""
import concurrent.futures
import difflib
import json
import os
import re
import shutil
import subprocess
import uuid

from . import common as C
from . import c18
from . import gramgen
from .setup import build_envshim

PROP = "C20"

OPTION_SETS = [
    [],
    ["emit_rule_reference", "emit_tagged_node_reference", "no_warnings"],
    ["pest_optimizer = false"],
    ["box_only_if_needed"],
    ["box_only_if_needed", "emit_rule_reference"],
    ["do_not_emit_span", "no_warnings"],
    ["emit_rule_reference", "pest_optimizer = false", "box_only_if_needed"],
    ["emit_tagged_node_reference = true", "pest_optimizer = false", "no_warnings"],
    ["truncate_getter_at_node_tag"],
    ["no_warnings", "truncate_getter_at_node_tag = false", "emit_rule_reference"],
]

# only meaningful when the generator is built with `grammar-extras`
EXTRAS_OPTION_SETS = [
    ["emit_tagged_node_reference"],
    ["emit_tagged_node_reference", "emit_rule_reference", "truncate_getter_at_node_tag = false"],
    ["emit_tagged_node_reference", "truncate_getter_at_node_tag = true", "box_only_if_needed"],
    ["emit_tagged_node_reference", "pest_optimizer = false", "no_warnings"],
]

VARIANTS = {
    "default": [],
    "box": ["opt_box"],
    "noopt": ["opt_noopt"],
    "allon": ["opt_box", "opt_ref", "opt_tag", "opt_nospan", "opt_nowarn"],
    "ref": ["opt_ref"],
    "misc": ["opt_nowarn", "opt_nospan", "opt_tag"],
    "noopt_box_ref": ["opt_noopt", "opt_box", "opt_ref"],
    # derive built with `grammar-extras` (node tags kept): the tag options then do something
    "extras": ["extras"],
    "extras_tag": ["extras", "opt_tag"],
    "extras_tag_ref_box": ["extras", "opt_tag", "opt_ref", "opt_box"],
}
# what a variant is compared with: the option-free build of the same cargo feature set
BASELINE = {"extras_tag": "extras", "extras_tag_ref_box": "extras"}
QUICK_VARIANTS = ["default", "box", "noopt", "allon", "extras", "extras_tag"]


def grammar_files():
    r, v = C.REPO, C.VERIF
    good = {
        "grammar": r + "/derive/tests/grammar.pest",
        "syntax": r + "/generator/tests/syntax.pest",
        "json": r + "/derive/benches/json.pest",
        "csv": r + "/derive/examples/csv.pest",
        "docs": v + "/corpus/docs.pest",
        "seqs": v + "/corpus/seqs.pest",
        "stack": v + "/corpus/stack.pest",
        "errs": v + "/corpus/errs.pest",
        "ws": v + "/corpus/ws.pest",
        "rec": v + "/corpus/rec.pest",
        "look": v + "/corpus/look.pest",
        "cycles": v + "/corpus/cycles.pest",
        "cycles2": v + "/corpus/cycles2.pest",
        "optim": v + "/corpus/optim.pest",
        "tags": v + "/corpus/tags.pest",
        "ring": v + "/corpus/ring.pest",
        "uprop": v + "/corpus/uprop.pest",
    }
    bad = {n: v + "/corpus/bad/%s.pest" % n for n in ("leftrec", "undefined", "nonprogress", "syntaxerr", "duplicate")}
    for p in list(good.values()) + list(bad.values()):
        if not os.path.exists(p):
            raise C.HarnessError("corpus grammar missing: " + p)
    return good, bad


def split_grammar_text(text, n):
    """Split a grammar text into n pieces at lines that start a rule (concatenated they are the original text)."""
    lines = text.split("\n")
    starts = [i for i, l in enumerate(lines) if i > 0 and l[:1].isalpha() and "=" in l]
    if n <= 1 or not starts:
        return [text]
    cuts = sorted({starts[min(len(starts) - 1, k * len(starts) // n)] for k in range(1, n)})
    out, prev = [], 0
    for c in cuts:
        out.append("\n".join(lines[prev:c]) + "\n")
        prev = c
    out.append("\n".join(lines[prev:]))
    return out


def prepare_roots():
    """Four manifest roots holding identical copies of the grammar files (relocation of the grammar file). The copies differ in
    file-system metadata only: root0 ordinary files; root1 read-only files with a modification time in 2001; root2 symbolic
    links into a store directory whose files carry a modification time in 2033; root3 ordinary files under a much longer path."""
    good, bad = grammar_files()
    base = os.path.join(C.build_root(), "gensim-roots")
    roots = []
    for k in range(4):
        # root3: same bytes again under a much longer directory path (the length of CARGO_MANIFEST_DIR must not matter)
        root = os.path.join(base, "root%d" % k) if k < 3 else os.path.join(base, "root3-with-a-considerably-longer-directory-name-than-the-others", "nested", "a-bit-deeper-still")
        os.makedirs(os.path.join(root, "grammars"), exist_ok=True)
        for name, path in list(good.items()) + list(bad.items()):
            dst = os.path.join(root, "grammars", name + ".pest")
            data = open(path, "rb").read()
            target = dst
            if k == 2:
                store = os.path.join(base, "store")
                os.makedirs(store, exist_ok=True)
                target = os.path.join(store, name + ".pest")
                if not os.path.islink(dst) or os.readlink(dst) != target:
                    if os.path.lexists(dst):
                        os.unlink(dst)
                    os.symlink(target, dst)
            if not os.path.exists(target) or open(target, "rb").read() != data:
                if os.path.exists(target):
                    os.chmod(target, 0o644)
                open(target, "wb").write(data)
            if k == 1:
                os.utime(target, (1_000_000_000, 1_000_000_000))
                os.chmod(target, 0o444)
            elif k == 2:
                os.utime(target, (2_000_000_000, 2_000_000_000))
            # the same grammar split over two and three files (several #[grammar = "..."] attributes on one derive)
            text = data.decode("utf-8")
            for n in (2, 3):
                parts = split_grammar_text(text, n)
                parts += [""] * (n - len(parts))
                for j, part in enumerate(parts):
                    pp = os.path.join(root, "grammars", "%s.%d-%d.pest" % (name, n, j))
                    if not os.path.exists(pp) or open(pp, encoding="utf-8").read() != part:
                        open(pp, "w", encoding="utf-8").write(part)
        roots.append(root)
    texts = {name: open(path, encoding="utf-8").read() for name, path in list(good.items()) + list(bad.items())}
    return roots, texts, sorted(good), sorted(bad)


# Variables a build driver, a terminal or a CI system really sets for a proc-macro host; the generator must not care.
WELL_KNOWN_VARS = {
    "CARGO_PKG_NAME": ["app", "my-crate"], "CARGO_CRATE_NAME": ["app", "my_crate"], "CARGO_PKG_VERSION": ["0.1.0", "12.3.4-beta"], "CARGO_PRIMARY_PACKAGE": ["1"],
    "PROFILE": ["debug", "release"], "DEBUG": ["true", "false"], "OPT_LEVEL": ["0", "3"], "OUT_DIR": ["/tmp/out", "/nonexistent/out"], "TARGET": ["x86_64-unknown-linux-gnu", "wasm32-unknown-unknown"],
    "HOST": ["x86_64-unknown-linux-gnu"], "RUSTC": ["rustc"], "CARGO": ["/usr/bin/cargo"], "RUSTFLAGS": ["", "-C debuginfo=2"], "CARGO_ENCODED_RUSTFLAGS": ["--cfg\x1ffoo"],
    "RUST_BACKTRACE": ["0", "1", "full"], "RUST_LOG": ["trace", "pest_typed_generator=debug"], "RUST_MIN_STACK": ["8388608"], "NUM_JOBS": ["1", "64"], "CARGO_BUILD_JOBS": ["1"],
    "TERM": ["dumb", "xterm-256color"], "NO_COLOR": ["1"], "CLICOLOR_FORCE": ["1"], "COLORTERM": ["truecolor"], "COLUMNS": ["20", "400"],
    "LANG": ["C", "en_US.UTF-8", "tr_TR.UTF-8", "zh_CN.GB2312"], "LC_ALL": ["C", "de_DE.UTF-8"], "TZ": ["UTC", "Pacific/Kiritimati"], "HOME": ["/root", "/nonexistent"], "USER": ["root", "builder"],
    "TMPDIR": ["/tmp", "/nonexistent"], "PWD": ["/", "/somewhere/else"], "CI": ["true"], "SOURCE_DATE_EPOCH": ["0", "1700000000"], "RA_RUSTC_WRAPPER": ["1"], "PEST_DEBUG": ["1"], "PEST_TYPED_DEBUG": ["1"],
}

NEUTRAL_ENV = {"shim_seed": 0, "clock_base": 1700000000, "clock_step": 1000, "junk_env": 0, "junk_size": 0, "cwd": "root0", "root": 0,
               "read_short": 0, "read_eintr": 0, "stderr": "pipe", "well_known": {}, "pid": 4242, "ncpu": 8}


def text_of(texts, name):
    """Grammar text by name; `gen:<seed>` names a grammar drawn from that seed (vlib/gramgen.py)."""
    if name.startswith("gen:"):
        if "e" in name[4:]:
            # `gen:<seed>e<edit seed>`: grammar <seed> after an edit that keeps its rule table (gramgen.edited_grammar)
            a, b = name[4:].split("e")
            return gramgen.edited_grammar(int(a), int(b))
        return gramgen.grammar(int(name[4:]))
    return texts[name]


STRUCT_DECLS = ["Parser", "Parser", "P", "MyGrammar_2", "r#type", "Parser<'a>", "Generic<T>", "Rule"]


def shape(rng, source):
    """How the derive is written down, which must not matter beyond what it says: the struct's name and generics, the grammar
    handed over in one or several inline attributes, option attributes before or after the grammar."""
    return {"struct_decl": rng.pick(STRUCT_DECLS), "pieces": (1 if rng.chance(2, 3) else 2 + rng.below(2)), "options_last": rng.chance(2, 3)}


def make_step(rng, goods, bads, texts, root_index, option_sets=None):
    option_sets = option_sets or OPTION_SETS
    if rng.chance(1, 3):
        # a grammar program drawn from the seed (inline source: nothing to compile, so programs can be sampled)
        name = "gen:%d" % (rng.next() % 1_000_000)
        st = {"name": name, "source": "inline", "path": "", "text": text_of(texts, name), "options": list(rng.pick(option_sets)),
              "include_grammar": False, "thread": rng.pick([0, 0, 1, 2, 3, 9])}
        st.update(shape(rng, "inline"))
        return st
    bad = rng.chance(1, 7)
    name = rng.pick(bads) if bad else rng.pick(goods)
    source = "file" if rng.chance(2, 3) else "inline"
    opts = list(rng.pick(option_sets))
    include = source == "file" and root_index == 0 and rng.chance(1, 4)
    thread = rng.pick([0, 0, 1, 2, 3, 9])
    st = {"name": name, "source": source, "path": "grammars/%s.pest" % name, "text": texts[name] if source == "inline" else "",
          "options": opts, "include_grammar": include, "thread": thread}
    st.update(shape(rng, source))
    return st


def insert_edits(seed, steps, option_sets):
    """Editor-session histories (added after seeded change C20-n): one run in three also expands an *edited version* of a
    seed-drawn grammar in the same process - same rule names, kinds and order, other bodies and another reference structure -
    before or after the original (which is added when the history has none). Drawn from a PRNG stream of its own and applied
    after the history is complete, so every step the history had before this pass existed is unchanged."""
    er = C.SplitMix(seed ^ 0x0ED1750E55)
    if not er.chance(1, 3):
        return steps
    steps = list(steps)
    originals = [st for st in steps if st["name"].startswith("gen:") and "e" not in st["name"][4:]]
    if originals and er.chance(2, 3):
        base = dict(er.pick(originals))
    else:
        name = "gen:%d" % (er.next() % 1_000_000)
        base = {"name": name, "source": "inline", "path": "", "text": gramgen.grammar(int(name[4:])), "options": list(er.pick(option_sets)),
                "include_grammar": False, "thread": er.pick([0, 0, 1, 2, 3, 9])}
        base.update(shape(er, "inline"))
        steps.insert(er.below(len(steps) + 1), base)
    for _ in range(1 + er.below(2)):
        ed = dict(base)
        ed["name"] = "%se%d" % (base["name"], er.below(1000))
        a, b = ed["name"][4:].split("e")
        ed["text"] = gramgen.edited_grammar(int(a), int(b))
        ed["thread"] = er.pick([0, 0, 1, 2, 3, 9])
        if er.chance(1, 3):
            ed["options"] = list(er.pick(option_sets))
        steps.insert(er.below(len(steps) + 1), ed)
    return steps


def gen_run(seed, goods, bads, texts, option_sets=None, edits=True):
    option_sets = option_sets or OPTION_SETS
    rng = C.SplitMix(seed)
    # swarm: each perturbation kind is enabled per run with its own probability
    env = dict(NEUTRAL_ENV)
    env["shim_seed"] = rng.next() >> 1
    if rng.chance(1, 2):
        env["clock_base"] = rng.below(4_000_000_000)
        env["clock_step"] = rng.pick([0, 1, 1000, 10**9, 10**12])
    if rng.chance(1, 2):
        env["junk_env"] = rng.below(40)
        env["junk_size"] = 1 + rng.below(300)
    env["well_known"] = {}
    if rng.chance(1, 2):
        env["pid"] = 2 + rng.below(4_000_000)
    if rng.chance(1, 2):
        env["ncpu"] = rng.pick([1, 2, 3, 16, 64, 192])
    if rng.chance(2, 3):
        names = sorted(WELL_KNOWN_VARS)
        for _ in range(1 + rng.below(12)):
            nm = rng.pick(names)
            env["well_known"][nm] = rng.pick(WELL_KNOWN_VARS[nm])
    env["root"] = rng.below(4) if rng.chance(1, 2) else 0
    env["cwd"] = rng.pick(["root0", "root1", "slash", "build"]) if rng.chance(1, 2) else "root0"
    if rng.chance(1, 2):
        env["read_short"] = rng.pick([1, 3, 7, 64, 1000])
    if rng.chance(1, 3):
        env["read_eintr"] = rng.pick([2, 3, 5])
    if rng.chance(1, 3):
        # where the generator's warnings go: a sink that accepts everything, or a full disk (every write fails with ENOSPC)
        env["stderr"] = rng.pick(["devnull", "devfull"])
    heap = [0, 0] if rng.chance(1, 2) else [rng.below(200), 16 + rng.below(4000)]
    # most processes expand a handful of derives; one in twenty-five is a long-lived proc-macro server
    n = 12 + rng.below(30) if rng.chance(1, 25) else 1 + rng.below(7)
    steps = []
    for i in range(n):
        if steps and rng.chance(1, 4):
            # the same grammar and options again (re-expansion inside one process)
            st = dict(rng.pick(steps))
            st["thread"] = rng.pick([0, 1, 2, 3, 9])
            if rng.chance(1, 2):
                # ... the same grammar under another option set / source kind
                st["options"] = list(rng.pick(option_sets))
                if rng.chance(1, 3) and not st["name"].startswith("gen:"):
                    st["source"] = "inline" if st["source"] == "file" else "file"
                    st["text"] = texts[st["name"]] if st["source"] == "inline" else ""
                    st["include_grammar"] = False
            steps.append(st)
        else:
            steps.append(make_step(rng, goods, bads, texts, env["root"], option_sets))
    if edits:
        steps = insert_edits(seed, steps, option_sets)
    return {"env": env, "scenario": {"heap_pre": heap, "steps": steps}}


def process_env(env, roots, shim, log):
    e = {"PATH": "/usr/bin:/bin", "LD_PRELOAD": shim, "ENVSHIM_SEED": str(env["shim_seed"]), "ENVSHIM_CLOCK_BASE": str(env["clock_base"]),
         "ENVSHIM_CLOCK_STEP": str(env["clock_step"]), "ENVSHIM_READ_SHORT": str(env["read_short"]), "ENVSHIM_READ_EINTR": str(env["read_eintr"]),
         "ENVSHIM_LOG": log, "CARGO_MANIFEST_DIR": roots[env["root"]], "ENVSHIM_PID": str(env.get("pid", 4242)), "ENVSHIM_NCPU": str(env.get("ncpu", 8))}
    for i in range(env["junk_env"]):
        e["JUNK_%03d" % i] = "x" * env["junk_size"]
    for k, v in sorted(env.get("well_known", {}).items()):
        e[k] = v
    cwd = {"root0": roots[0], "root1": roots[1], "slash": "/", "build": C.build_root()}[env["cwd"]]
    return e, cwd


_counter = [0]


def exec_run(binary, shim, roots, run, dump_dir=None):
    """-> (steps [(digest, length, key)], shim counters {}, exit code, stderr)"""
    tag = uuid.uuid4().hex
    scen = os.path.join(C.build_root(), "gensim-scn-%s.json" % tag)
    log = os.path.join(C.build_root(), "gensim-log-%s.txt" % tag)
    json.dump(run["scenario"], open(scen, "w"))
    env, cwd = process_env(run["env"], roots, shim, log)
    cmd = [binary, "exec", "--scenario", scen] + (["--dump-dir", dump_dir] if dump_dir else [])
    target = {"pipe": None, "devnull": "/dev/null", "devfull": "/dev/full"}[run["env"].get("stderr", "pipe")]
    if target is not None and not os.path.exists(target):
        target = "/dev/null"
    if target is None:
        p = _run_limited(cmd, env, cwd, subprocess.PIPE)
    else:
        with open(target, "w") as sink:
            p = _run_limited(cmd, env, cwd, sink)
        p.stderr = b""
    steps = []
    for l in p.stdout.decode("utf-8", errors="replace").split("\n"):
        if l.startswith("STEP "):
            parts = l.split(" ", 4)
            key = json.dumps(json.loads(parts[4]), sort_keys=True)
            steps.append((parts[2], int(parts[3]), key))
    counters = {}
    if os.path.exists(log):
        for l in open(log):
            if l.startswith("SHIM "):
                for kv in l.split()[1:]:
                    k, v = kv.split("=")
                    counters[k] = counters.get(k, 0) + int(v)
        os.unlink(log)
    os.unlink(scen)
    return steps, counters, p.returncode, p.stderr.decode(errors="replace")


def _run_limited(cmd, env, cwd, stderr):
    try:
        return subprocess.run(cmd, env=env, cwd=cwd, stdout=subprocess.PIPE, stderr=stderr, timeout=300)
    except subprocess.TimeoutExpired:
        raise C.HarnessError("the generator did not come back within 300 s (normal: tens of milliseconds). Termination is not judged by this check.")


class GenRefs:
    """J1's reference: the digest of the same single expansion in a fresh process with a neutral environment."""

    def __init__(self, binary, shim, roots, texts):
        self.binary, self.shim, self.roots, self.texts = binary, shim, roots, texts
        self.map = {}
        self.processes = 0

    def step_for(self, key):
        k = json.loads(key)
        return {"name": k["name"], "source": k["source"], "path": "grammars/%s.pest" % k["name"], "text": text_of(self.texts, k["name"]) if k["source"] == "inline" else "",
                "options": k["options"], "include_grammar": k["include_grammar"], "thread": 0,
                "struct_decl": k.get("struct_decl", "Parser"), "pieces": k.get("pieces", 1), "options_last": k.get("options_last", True)}

    def compute(self, key, dump_dir=None):
        run = {"env": dict(NEUTRAL_ENV), "scenario": {"heap_pre": [0, 0], "steps": [self.step_for(key)]}}
        steps, counters, rc, err = exec_run(self.binary, self.shim, self.roots, run, dump_dir)
        if rc != 0 or len(steps) != 1:
            raise C.HarnessError("reference expansion for %s failed (exit %d): %s" % (key, rc, err[-1500:]))
        if counters.get("getrandom", 0) == 0 and not steps[0][0].startswith("PANIC"):
            pass  # the canary is evaluated over the whole batch (see run)
        return steps[0][0]

    def ensure(self, keys, pool):
        need = sorted(k for k in keys if k not in self.map)
        for k, d in zip(need, pool.map(self.compute, need)):
            self.map[k] = d
            self.processes += 1


def failures_of(binary, shim, roots, refs, run, pool):
    steps, counters, rc, err = exec_run(binary, shim, roots, run)
    if rc != 0:
        raise C.HarnessError("gensim died outside an expansion (exit %d): %s" % (rc, err[-1500:]))
    refs.ensure({s[2] for s in steps}, pool)
    out = []
    for i, (digest, length, key) in enumerate(steps):
        want = refs.map[key]
        if digest != want:
            cls = "output-differs" if not digest.startswith("PANIC") and not want.startswith("PANIC") else "panic-differs"
            out.append((cls, key, i))
    return out


def minimise(binary, shim, roots, refs, run, cls, key, pool):
    def still(r):
        return any(c == cls and k == key for (c, k, _) in failures_of(binary, shim, roots, refs, r, pool))

    cur = json.loads(json.dumps(run))
    steps = cur["scenario"]["steps"]
    i = 0
    while i < len(steps) and len(steps) > 1:
        cand = json.loads(json.dumps(cur))
        del cand["scenario"]["steps"][i]
        if still(cand):
            cur = cand
            steps = cur["scenario"]["steps"]
        else:
            i += 1
    for k, v in NEUTRAL_ENV.items():
        if k == "well_known":
            for name in sorted(cur["env"].get("well_known", {})):
                cand = json.loads(json.dumps(cur))
                del cand["env"]["well_known"][name]
                if still(cand):
                    cur = cand
            continue
        if cur["env"][k] != v:
            if k == "root" and any(s["include_grammar"] for s in cur["scenario"]["steps"]):
                continue
            cand = json.loads(json.dumps(cur))
            cand["env"][k] = v
            if still(cand):
                cur = cand
    cand = json.loads(json.dumps(cur))
    cand["scenario"]["heap_pre"] = [0, 0]
    if still(cand):
        cur = cand
    cand = json.loads(json.dumps(cur))
    for s in cand["scenario"]["steps"]:
        s["thread"] = 0
    if still(cand):
        cur = cand
    return cur


def first_difference(a, b):
    ta, tb = a.split(" "), b.split(" ")
    for i, (x, y) in enumerate(zip(ta, tb)):
        if x != y:
            return {"token_index": i, "run": " ".join(ta[max(0, i - 12):i + 12]), "reference": " ".join(tb[max(0, i - 12):i + 12])}
    return {"token_index": min(len(ta), len(tb)), "run_tokens": len(ta), "reference_tokens": len(tb)}


def describe_difference(binary, shim, roots, refs, run, key, index):
    d1 = os.path.join(C.build_root(), "gensim-dump-run-%d" % os.getpid())
    d2 = os.path.join(C.build_root(), "gensim-dump-ref-%d" % os.getpid())
    for d in (d1, d2):
        shutil.rmtree(d, ignore_errors=True)
        os.makedirs(d)
    exec_run(binary, shim, roots, run, d1)
    refs.compute(key, d2)
    try:
        a = open(os.path.join(d1, "step%d.txt" % index)).read()
        b = open(os.path.join(d2, "step0.txt")).read()
        diff = first_difference(a, b)
    except OSError:
        diff = {}
    for d in (d1, d2):
        shutil.rmtree(d, ignore_errors=True)
    return diff


# ---------------------------------------------------------------- clause 2: configuration swarm over parsesim variants

def build_variants(names):
    """Build parsesim once per option variant, in parallel, each in its own target directory.
    -> ({variant: binary}, {variant: rustc log of a failed build})"""
    c18.sim_env()

    def build(name):
        if name == "default":
            return name, C.build_runner("parsesim")
        return name, C.build_runner("parsesim", features=VARIANTS[name], variant=name)

    bins, failed = {}, {}
    with concurrent.futures.ThreadPoolExecutor(max_workers=len(names)) as ex:
        for name, (path, log) in ex.map(build, names):
            if path is None:
                failed[name] = log
            else:
                bins[name] = path
    return bins, failed


def variant_runs(bins, seeds):
    """Execute the same seeded histories in every variant binary. -> {variant: [[(key, sem, ok)...] per run]}"""
    out = {}
    for name, binary in bins.items():
        res = c18.fanout(binary, [["exec", "--seed", str(s)] for s in seeds], "var-" + name)
        runs = []
        for (i, code, lines) in res:
            ops, viols, probes, err = c18.parse_run(lines)
            if code != 0:
                # the process died inside a history (e.g. unbounded recursion of a grammar that is not well-founded):
                # nothing this check judges; the run is dropped from the comparison and counted
                runs.append(None)
                continue
            runs.append([(o[5], o[6], o[2]) for o in ops])
        out[name] = runs
    return out


def run(tier, seed):
    t = C.Timer()
    shim = build_envshim()
    if shim is None:
        raise C.HarnessError("envshim source missing")
    binary = C.require_build("gensim")
    # the generator built with its `grammar-extras` feature: node tags are kept, which switches on the tagged-node maps and
    # makes emit_tagged_node_reference / truncate_getter_at_node_tag do something
    binary_extras = C.require_build("gensim", features=["extras"], variant="extras")
    roots, texts, goods, bads = prepare_roots()
    n_runs = {"quick": 500, "thorough": 60000}[tier]
    gen_phases = [("plain", binary, GenRefs(binary, shim, roots, texts), n_runs, OPTION_SETS),
                  ("extras", binary_extras, GenRefs(binary_extras, shim, roots, texts), n_runs // 3, OPTION_SETS + EXTRAS_OPTION_SETS)]
    phase_env = {p[0]: p for p in gen_phases}
    base = C.mix(seed, C.tag("C20"))
    pool = concurrent.futures.ThreadPoolExecutor(max_workers=C.jobs())
    failing = {}
    counters_total = {}
    env_kinds = {"hash_seed_varied": 0, "clock_varied": 0, "junk_environment": 0, "manifest_root_relocated": 0, "cwd_changed": 0,
                 "well_known_variables_set": 0, "read_short_configured": 0, "read_eintr_configured": 0, "stderr_is_full_disk": 0, "stderr_is_devnull": 0, "pid_varied": 0, "cpu_count_varied": 0, "heap_ballast": 0, "non_main_thread_steps": 0, "fresh_thread_steps": 0,
                 "panicking_expansions": 0, "steps_after_a_panicking_expansion": 0, "repeated_expansions_in_one_process": 0,
                 "generated_grammar_expansions": 0, "generated_grammar_expansions_accepted": 0, "edited_grammar_expansions": 0}
    distinct = set()
    steps_total = 0
    samples = []
    evaluations = 0
    keys_seen = set()
    CH = 400
    for (label, gbin, refs, n_phase, option_sets) in gen_phases:
        pbase = base if label == "plain" else C.mix(base, C.tag(label))
        for start in range(0, n_phase, CH):
            seeds = [C.mix(pbase, r) for r in range(start, min(n_phase, start + CH))]
            runs = [gen_run(s, goods, bads, texts, option_sets) for s in seeds]
            results = list(pool.map(lambda r: exec_run(gbin, shim, roots, r), runs))
            keys = set()
            for (steps, counters, rc, err), r, s in zip(results, runs, seeds):
                if rc != 0:
                    raise C.HarnessError("gensim died outside an expansion (run seed %d, exit %d): %s" % (s, rc, err[-1500:]))
                if len(steps) != len(r["scenario"]["steps"]):
                    raise C.HarnessError("gensim reported %d of %d steps (run seed %d)" % (len(steps), len(r["scenario"]["steps"]), s))
                for st in steps:
                    keys.add(st[2])
            refs.ensure(keys, pool)
            keys_seen |= keys
            for (steps, counters, rc, err), r, s in zip(results, runs, seeds):
                evaluations += 1
                for k, v in counters.items():
                    counters_total[k] = counters_total.get(k, 0) + v
                e = r["env"]
                env_kinds["hash_seed_varied"] += 1
                env_kinds["clock_varied"] += e["clock_base"] != NEUTRAL_ENV["clock_base"] or e["clock_step"] != NEUTRAL_ENV["clock_step"]
                env_kinds["junk_environment"] += e["junk_env"] > 0
                env_kinds["well_known_variables_set"] += len(e["well_known"])
                env_kinds["pid_varied"] += e["pid"] != NEUTRAL_ENV["pid"]
                env_kinds["cpu_count_varied"] += e["ncpu"] != NEUTRAL_ENV["ncpu"]
                env_kinds["manifest_root_relocated"] += e["root"] != 0
                env_kinds["cwd_changed"] += e["cwd"] != "root0"
                env_kinds["read_short_configured"] += e["read_short"] > 0
                env_kinds["read_eintr_configured"] += e["read_eintr"] > 0
                env_kinds["stderr_is_full_disk"] += e["stderr"] == "devfull"
                env_kinds["stderr_is_devnull"] += e["stderr"] == "devnull"
                env_kinds["heap_ballast"] += r["scenario"]["heap_pre"][0] > 0
                env_class = (e["clock_base"] != NEUTRAL_ENV["clock_base"], e["junk_env"] > 0, tuple(sorted(e["well_known"])), e["root"], e["cwd"], e["read_short"], e["read_eintr"], e["stderr"],
                             r["scenario"]["heap_pre"][0] > 0)
                prefix = ""
                panicked = False
                seen_in_run = set()
                for i, ((digest, length, key), st) in enumerate(zip(steps, r["scenario"]["steps"])):
                    steps_total += 1
                    env_kinds["non_main_thread_steps"] += st["thread"] != 0
                    env_kinds["fresh_thread_steps"] += st["thread"] == 9
                    env_kinds["panicking_expansions"] += digest.startswith("PANIC")
                    if st["name"].startswith("gen:"):
                        env_kinds["edited_grammar_expansions"] += "e" in st["name"][4:]
                        env_kinds["generated_grammar_expansions"] += 1
                        env_kinds["generated_grammar_expansions_accepted"] += not digest.startswith("PANIC")
                    env_kinds["steps_after_a_panicking_expansion"] += panicked
                    env_kinds["repeated_expansions_in_one_process"] += key in seen_in_run
                    seen_in_run.add(key)
                    panicked = panicked or digest.startswith("PANIC")
                    # non-trivial: not the first expansion of a neutral-environment process
                    distinct.add(hash((label, key, env_class, prefix, st["thread"])))
                    prefix = prefix + "|" + key
                    want = refs.map[key]
                    if digest != want:
                        cls = "output-differs" if not digest.startswith("PANIC") and not want.startswith("PANIC") else "panic-differs"
                        f = failing.setdefault((label, cls, key), [s, 0, r])
                        f[1] += 1
                if len(samples) < 2:
                    samples.append({"run_seed": s, "environment": e, "heap_pre": r["scenario"]["heap_pre"],
                                    "history": [{k: v for k, v in st.items() if k != "text"} for st in r["scenario"]["steps"]],
                                    "digests": [d[:16] for d, _, _ in steps]})
    # J0: the seams must really be in the loop
    if counters_total.get("getrandom", 0) == 0:
        raise C.HarnessError("envshim canary: getrandom was never intercepted; the hash-seed seam is not in the loop")
    known = C.known_for(PROP)
    new_violations, known_hits = [], []
    groups = {}
    for (label, cls, key), (s, cnt, r) in sorted(failing.items()):
        g = groups.setdefault((label, cls), {"count": 0, "first": (s, key, r), "keys": []})
        g["count"] += cnt
        g["keys"].append(key)
    for (label, cls), g in groups.items():
        s, key, r = g["first"]
        _, binary, refs, _, _ = phase_env[label]
        small = minimise(binary, shim, roots, refs, r, cls, key, pool)
        hit = [f for f in failures_of(binary, shim, roots, refs, small, pool) if f[0] == cls and f[1] == key]
        if not hit:
            raise C.HarnessError("violation %s for %s (run seed %d) did not reproduce in a fresh process" % (cls, key, s))
        diff = describe_difference(binary, shim, roots, refs, small, key, hit[0][2])
        path = C.replay_path(PROP, C.safe_name("%s-seed%d-%s-%s" % (tier, seed, label, cls)) + ".json")
        for st in small["scenario"]["steps"]:
            st.pop("text", None)  # re-read from the corpus on replay
        doc = {"property": PROP, "class": cls, "subject": key, "count": g["count"], "affected_keys": g["keys"][:20], "seed": seed, "run_seed": s, "tier": tier,
               "kind": "generator-run", "generator_build": label, "run": small, "original_steps": len(r["scenario"]["steps"]), "first_difference": diff,
               "reference_digest_alone_in_neutral_process": refs.map[key], "replay_cmd": "./check replay " + path}
        json.dump(doc, open(path, "w"), indent=1, ensure_ascii=False)
        k = next((k for k in known if k["match"].get("class") == cls and k["match"].get("subject") in (None, key)), None)
        (known_hits if k else new_violations).append((k, doc, path))

    # ---- clause 1 once more, through the real proc_macro bridge inside a real rustc process (vlib/c20real.py)
    from . import c20real
    try:
        real_stats, real_docs = c20real.run(seed, {"quick": 40, "thorough": 3000}[tier], shim, roots, texts, goods)
    except c20real.HostUnavailable as e:
        # the tier needs a nightly rustc; without one the gensim tiers above still decide the clause
        real_stats, real_docs = {"skipped": str(e)[:600]}, []
    for d in real_docs:
        path = C.replay_path(PROP, C.safe_name("%s-seed%d-%s" % (tier, seed, d["class"])) + ".json")
        d.update({"seed": seed, "tier": tier, "replay_cmd": "./check replay " + path})
        json.dump(d, open(path, "w"), indent=1, ensure_ascii=False)
        k = next((k for k in known if k["match"].get("class") == d["class"]), None)
        (known_hits if k else new_violations).append((k, d, path))

    # ---- clause 2
    vnames = QUICK_VARIANTS if tier == "quick" else list(VARIANTS)
    bins, failed = build_variants(vnames)
    if "default" in failed:
        raise C.HarnessError("the default variant of the corpus does not compile:\n" + "\n".join(failed["default"].splitlines()[-30:]))
    for name, log in sorted(failed.items()):
        path = C.replay_path(PROP, C.safe_name("%s-seed%d-variant-%s-does-not-compile" % (tier, seed, name)) + ".json")
        errs = [l for l in log.splitlines() if l.startswith("error")][:20]
        doc = {"property": PROP, "class": "variant-does-not-compile", "subject": name, "kind": "variant-build", "variant": name, "features": VARIANTS[name],
               "rustc_errors": errs, "seed": seed, "tier": tier, "replay_cmd": "./check replay " + path}
        json.dump(doc, open(path, "w"), indent=1)
        k = next((k for k in known if k["match"].get("class") == "variant-does-not-compile" and k["match"].get("subject") == name), None)
        (known_hits if k else new_violations).append((k, doc, path))
    n_var_runs = {"quick": 5000, "thorough": 60000}[tier]
    vbase = C.mix(seed, C.tag("C20-variants"))
    var_ops = 0
    var_disagree = {}
    var_pairs_compared = 0
    var_runs_lost = 0
    var_sample = None
    for start in range(0, n_var_runs, 10000):
        seeds = [C.mix(vbase, r) for r in range(start, min(n_var_runs, start + 10000))]
        res = variant_runs(bins, seeds)
        dflt = res["default"]
        for name in bins:
            if name == "default" or name == "extras":
                continue  # `extras` differs from `default` by a cargo feature, not by an option: it is a baseline only
            if BASELINE.get(name, "default") not in res:
                continue
            for ri, (a, b) in enumerate(zip(res[BASELINE.get(name, "default")], res[name])):
                if a is None or b is None:
                    var_runs_lost += 1
                    continue
                bm = {}
                for (key, sem, ok) in b:
                    bm.setdefault(key, []).append(sem)
                for (key, sem, ok) in a:
                    if key not in bm:
                        continue
                    var_pairs_compared += 1
                    if sem not in bm[key]:
                        f = var_disagree.setdefault((name, key), [seeds[ri], 0])
                        f[1] += 1
        var_ops += sum(len(r) for r in dflt if r is not None)
        if var_sample is None and dflt and dflt[0] and all(res[n][0] for n in bins):
            var_sample = {"run_seed": seeds[0], "operation": dflt[0][0][0], "semantic_digest_per_variant": {n: res[n][0][0][1] for n in bins if res[n][0]}}
    # call sites of the recorded finding: rules reaching e+ / counted repetition under implicit skipping,
    # compared between variants that differ in pest_optimizer
    listing = json.loads(subprocess.run([bins["default"], "list"], stdout=subprocess.PIPE, env={}).stdout)
    rep_skip_rules = {(g["name"], r["rule"]) for g in listing for r in g["rules"] if r.get("rep_skip")}
    vgroups = {}
    for (name, key), (s, cnt) in sorted(var_disagree.items()):
        gname, rule = key.split("|")[:2]
        site = "repetition-with-implicit-skip" if ("opt_noopt" in VARIANTS[name] and (gname, rule) in rep_skip_rules) else "other"
        if site != "other" and _accepts_more(bins[BASELINE.get(name, "default")], bins[name], c18.key_to_op(key)):
            # the recorded finding *gives back* a skip: at its call sites the option may consume less, never more. A variant
            # that accepts what the baseline rejects, or consumes beyond the baseline, is something else (seeded change C20-o)
            site = "other"
        g = vgroups.setdefault((name, site), {"count": 0, "first": (s, key), "keys": []})
        g["count"] += cnt
        g["keys"].append(key)
    for (name, site), g in vgroups.items():
        s, key = g["first"]
        op = c18.key_to_op(key)
        subject = name + "/" + site
        path = C.replay_path(PROP, C.safe_name("%s-seed%d-variant-%s-%s-disagrees" % (tier, seed, name, site)) + ".json")
        doc = {"property": PROP, "class": "variant-disagrees", "subject": subject, "kind": "variant-op", "variant": name, "features": VARIANTS[name], "operation": op,
               "baseline": BASELINE.get(name, "default"),
               "count": g["count"], "affected_operations": g["keys"][:20], "seed": seed, "run_seed": s, "tier": tier, "replay_cmd": "./check replay " + path}
        json.dump(doc, open(path, "w"), indent=1, ensure_ascii=False)
        # confirm in fresh processes: the single operation alone in both binaries
        if _variant_op_differs(bins[BASELINE.get(name, "default")], bins[name], op) is not True:
            raise C.HarnessError("variant disagreement %s / %s did not reproduce with the single operation in fresh processes" % (name, key))
        k = next((k for k in known if k["match"].get("class") == "variant-disagrees" and k["match"].get("site") == site == "repetition-with-implicit-skip"), None)
        (known_hits if k else new_violations).append((k, doc, path))

    for k, doc, path in known_hits:
        C.say("KNOWN-FINDING: property=%s %s [class=%s subject=%s]" % (PROP, k["what"], doc["class"], doc["subject"]))
    for _, doc, path in new_violations:
        C.say("VIOLATION property=%s replay=%s" % (PROP, path))
        C.say("  class=%s subject=%s" % (doc["class"], doc["subject"]))
        if doc.get("first_difference"):
            C.say("  first difference: %s" % json.dumps(doc["first_difference"])[:600])
        if doc.get("rustc_errors"):
            C.say("  " + "\n  ".join(doc["rustc_errors"][:5]))
    wall = t.s()
    coverage = {
        "evaluations": evaluations + n_var_runs * len(bins),
        "distinct_nontrivial": len(distinct),
        "rule": ("clause 1: one evaluation = one simulated run = a fresh generator process (ASLR off, envshim preloaded) executing a seeded history of 1-7 expansions (one run in 25: 12-41 expansions) "
                 "(grammar from a 15-grammar corpus, one of 5 ill-formed grammars, or a grammar program drawn from the seed by vlib/gramgen.py, one of %d option sets, file or inline source, include_grammar, calling thread) under a seeded "
                 "environment vector (hash seed, clock, environment size, manifest root, cwd, short reads / EINTR on the grammar file, heap ballast); every expansion is compared "
                 "with the same expansion alone in a fresh neutral process. distinct_nontrivial = distinct (expansion key, environment class, history prefix, thread) tuples. "
                 "The same comparison is repeated through the real proc_macro bridge: generated crates with 1-5 derives are expanded by a real nightly rustc (-Zunpretty=expanded) "
                 "with envshim preloaded, and each module's expansion is compared with the same derive expanded alone in a neutral rustc. "
                 "clause 2: the same seeded operation histories are executed in every option variant of the parsesim runner and compared on verdict, offset and thin pair tree."
                 % len(OPTION_SETS)),
        "samples": samples + ([var_sample] if var_sample else []),
        "generator_runs": evaluations,
        "expansions_observed": steps_total,
        "distinct_expansion_keys": len(keys_seen),
        "reference_processes": sum(p[2].processes for p in gen_phases),
        "generator_builds": {p[0]: p[3] for p in gen_phases},
        "real_bridge_tier": real_stats,
        "environment_kinds_applied": {k: int(v) for k, v in env_kinds.items()},
        "shim_calls_fired": counters_total,
        "clock_reads_by_generator": counters_total.get("clock", 0),
        "simulated_time": "simulated wall clock handed to the generator: base in [0, 4e9] s, step 0..1e12 ns per read; reads actually made: %d" % counters_total.get("clock", 0),
        "runs_per_hour": int(evaluations / max(wall, 1e-9) * 3600),
        "variants_built": sorted(bins),
        "variants_failed_to_build": sorted(failed),
        "variant_runs_per_variant": n_var_runs,
        "variant_operations_default": var_ops,
        "variant_operation_pairs_compared": var_pairs_compared,
        "variant_runs_dropped_because_a_runner_died": var_runs_lost,
        "real_components": ["pest_typed_generator::derive_typed_parser (whole generator)", "pest_meta parser/validator/optimizer", "std HashMap/File/env", "rustc + pest_typed_derive for the variant builds",
                            "pest_typed runtime in the variant runners"],
        "stubbed_components": ["kernel entropy (getrandom), wall clock, pid, CPU count, read(2) chunking via envshim.so", "proc_macro bridge: proc_macro2 fallback in gensim (the real-bridge tier runs the derive inside a real nightly rustc)", "ASLR (off; not in the rustc tier)"],
        "clauses": {"same code on every run / in separate processes": "decided by the environment+history simulation (J1, J2)",
                    "options change neither acceptance nor offsets nor pair tree; recursive grammars compile with reduced boxing": "configuration swarm over a fixed corpus (J3, J4); no fault or schedule dimension"},
    }
    C.write_evidence(PROP, tier, seed, "exploration", coverage,
                     ["clause 2 is bounded by the fixed grammar corpus; rustc must compile every grammar per variant",
                      "gensim calls the generator as a library through proc_macro2's fallback, as generator/tests/generator.rs does",
                      "a dependence on something the shim and runner do not control (CPU count, locale, mtime) is not reached; the generator makes no such call today"],
                     wall, len(new_violations))
    pool.shutdown()
    return 1 if new_violations else 0


def _observe(binary, op):
    p = subprocess.run([binary, "one", json.dumps(op), "--verbose"], stdout=subprocess.PIPE, stderr=subprocess.PIPE, env={})
    for l in p.stdout.decode("utf-8", errors="replace").split("\n"):
        if l.startswith("OBS "):
            return json.loads(l.split(" ", 2)[2])
    return None


def _accepts_more(bin_default, bin_variant, op):
    """True when the variant, on this single operation in a fresh process, succeeds where the baseline fails, consumes
    further than the baseline, or has a token ending beyond every token of the baseline."""
    a, b = _observe(bin_default, op), _observe(bin_variant, op)
    if a is None or b is None:
        return False
    if b["ok"] and not a["ok"]:
        return True
    if not (a["ok"] and b["ok"]):
        return False
    if a.get("offset") is not None and b.get("offset") is not None and b["offset"] > a["offset"]:
        return True
    ends = lambda o: [int(x) for x in re.findall(r"end: (\d+)", o.get("tokens") or "")]
    ea, eb = ends(a), ends(b)
    return bool(ea and eb and max(eb) > max(ea))


def _variant_op_differs(bin_default, bin_variant, op):
    def one(b):
        p = subprocess.run([b, "one", json.dumps(op)], stdout=subprocess.PIPE, stderr=subprocess.PIPE, env={})
        ops, _, _, _ = c18.parse_run(p.stdout.decode("utf-8", errors="replace").split("\n"))
        return ops[0][6] if len(ops) == 1 else None
    a, b = one(bin_default), one(bin_variant)
    if a is None or b is None:
        return None
    return a != b


def replay(path):
    doc = json.load(open(path))
    kind = doc.get("kind")
    if kind == "generator-run":
        shim = build_envshim()
        if doc.get("generator_build", "plain") == "extras":
            binary = C.require_build("gensim", features=["extras"], variant="extras")
        else:
            binary = C.require_build("gensim")
        roots, texts, goods, bads = prepare_roots()
        refs = GenRefs(binary, shim, roots, texts)
        run = doc["run"]
        for st in run["scenario"]["steps"]:
            st["text"] = text_of(texts, st["name"]) if st["source"] == "inline" else ""
        pool = concurrent.futures.ThreadPoolExecutor(max_workers=4)
        found = failures_of(binary, shim, roots, refs, run, pool)
        hit = [f for f in found if f[0] == doc["class"] and f[1] == doc["subject"]]
        if hit:
            C.say("first difference: %s" % json.dumps(describe_difference(binary, shim, roots, refs, run, doc["subject"], hit[0][2]))[:800])
    elif kind == "rustc-run":
        from . import c20real
        shim = build_envshim()
        roots, texts, goods, bads = prepare_roots()
        hit = c20real.replay(doc, shim, roots, texts)
    elif kind == "variant-build":
        bins, failed = build_variants(["default", doc["variant"]])
        hit = doc["variant"] in failed and "default" not in failed
        if hit:
            C.say("\n".join([l for l in failed[doc["variant"]].splitlines() if l.startswith("error")][:10]))
    elif kind == "variant-op":
        basev = doc.get("baseline", "default")
        bins, failed = build_variants([basev, doc["variant"]])
        if basev in failed or doc["variant"] in failed:
            raise C.HarnessError("a variant needed for this replay does not build")
        hit = _variant_op_differs(bins[basev], bins[doc["variant"]], doc["operation"]) is True
    else:
        raise C.HarnessError("unknown replay kind")
    if hit:
        C.say("REPRODUCED %s %s" % (doc["class"], doc["subject"]))
        C.say("VIOLATION property=%s replay=%s" % (PROP, path))
        return 1
    C.say("NOT-REPRODUCED %s" % doc["class"])
    return 0
