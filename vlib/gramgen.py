"""Seeded generator of small pest grammars (the 'programs' dimension) and of sentences they are likely to accept.

Grammars are drawn so that pest's validator accepts most of them: a rule only refers to rules with a
higher index unless the reference is guarded by a consumed literal, repetition bodies and all but the
last choice alternative start with something that consumes input. Whatever pest rejects is still a
legitimate step for C20's first clause: the expansion then panics, and the panic must be the same in
every environment.

grammar(seed) -> text                       (used per run by vlib/c20.py)
build(seed)   -> Grammar (rules as ASTs)    render(g) -> text, sample(g, rule, rng) -> a likely sentence
                                            (used once by tools/make_gen_corpus.py to write corpus/gen/*)
"""
from .common import SplitMix

BUILTINS = {"ANY": "x", "ASCII_DIGIT": "7", "ASCII_ALPHA": "q", "ASCII_ALPHANUMERIC": "k", "ASCII_HEX_DIGIT": "f", "NEWLINE": "\n", "LETTER": "ß", "NUMBER": "5",
            "HAN": "中", "EMOJI": "😀", "UPPERCASE_LETTER": "Q", "XID_START": "w", "XID_CONTINUE": "9", "PUNCTUATION": "!"}
BUILTIN_NAMES = sorted(BUILTINS)
WORDS = ["a", "b", "ab", "let", "(", ")", ",", ";", "=", "fn", "0x", "::", "<", ">", "é", "中", "+"]
RANGES = [("a", "z", "m"), ("0", "9", "4"), ("A", "F", "C"), ("\\u{4e00}", "\\u{9fff}", "字")]
STACK_OPS = ["PEEK", "POP", "PEEK_ALL", "POP_ALL", "PEEK[0..1]", "PEEK[-1..]", "DROP"]
# terminators that can begin inside a partial match of themselves or of each other
TERMINATORS = ["-->", "aab", "ab", "b", "abc", '\"\"\"', "中中文", "xyz", "--", "ba", "ababc", ";"]
SLICES = ["PEEK[..]", "PEEK[1..]", "PEEK[..-1]", "PEEK[0..2]", "PEEK[-2..]", "PEEK[1..-1]", "PEEK[-1..]", "PEEK[0..1]"]


class Grammar:
    def __init__(self):
        self.header = []
        self.rules = []  # (index, modifier, doc or None, ast)
        self.order = []
        self.skip = False
        self.names = {}

    def name(self, i):
        return self.names.get(i, "r%d" % i)


def consuming_atom(rng, i, n):
    """An expression that always consumes at least one character."""
    k = rng.below(9)
    if k == 0:
        return ("ins", rng.pick(WORDS))
    if k == 1:
        return ("range",) + rng.pick(RANGES)
    if k == 2:
        return ("builtin", rng.pick(BUILTIN_NAMES))
    if k == 3 and i + 1 < n:
        return ("ref", i + 1 + rng.below(n - i - 1))
    if k == 4:
        return ("push", ("lit", rng.pick(WORDS)))
    return ("lit", rng.pick(WORDS))


def rich_expr(rng, i, n, depth):
    """Shapes the first twelve corpus grammars did not have (kept apart so that their seeds still render the same text)."""
    k = rng.below(7)
    sub = lambda: expr(rng, i, n, depth - 1)
    if k == 0:
        # skip-until with one to three terminators (a skip-until node under the optimizer, in atomic context)
        ts = []
        for _ in range(1 + rng.below(3)):
            t = rng.pick(TERMINATORS)
            if t not in ts:
                ts.append(t)
        return ("seq", [("skipuntil", ts), ("opt", ("lit", ts[0]))])
    if k == 1:
        # the same text consumed either way, the alternative taken depends on what follows
        a = consuming_atom(rng, i, n)
        return ("alt", [("seq", [a, ("pos", ("lit", rng.pick(WORDS)))]), a])
    if k == 2:
        a = consuming_atom(rng, i, n)
        return ("alt", [("seq", [a, ("builtin_raw", "EOI")]), ("seq", [a, ("neg", ("lit", rng.pick(WORDS)))]), a])
    if k == 3:
        return ("seq", [("push", ("lit", rng.pick(WORDS))), ("push", consuming_atom(rng, i, n)), ("push", ("lit", rng.pick(WORDS))), ("peekslice", rng.pick(SLICES)), ("stackop", "POP_ALL")])
    if k == 4 and i > 0:
        # a cycle whose closing edge sits only inside a lookahead
        return ("seq", [("lit", rng.pick(WORDS)), ("opt", ("seq", [("pos", ("ref", rng.below(i + 1))), consuming_atom(rng, i, n)]))])
    if k == 5:
        # adjacent strings / common prefixes (concatenator, factorizer)
        w1, w2, w3 = rng.pick(WORDS), rng.pick(WORDS), rng.pick(WORDS)
        return ("alt", [("seq", [("lit", w1), ("lit", w2), sub()]), ("seq", [("lit", w1), ("lit", w3)]), ("lit", w1)])
    return ("seq", [("builtin_raw", "SOI") if rng.chance(1, 3) else consuming_atom(rng, i, n), sub()])


def expr(rng, i, n, depth):
    if depth <= 0:
        return consuming_atom(rng, i, n)
    if getattr(rng, "rich", False) and rng.chance(1, 4):
        return rich_expr(rng, i, n, depth)
    k = rng.below(14)
    sub = lambda: expr(rng, i, n, depth - 1)
    body = lambda: ("seq", [consuming_atom(rng, i, n), sub()]) if rng.chance(1, 2) else consuming_atom(rng, i, n)
    if k <= 2:
        m = 2 + rng.below(3 if depth > 1 else 14)  # occasionally long sequences (13+ members)
        return ("seq", [sub() for _ in range(m)])
    if k <= 4:
        # every alternative but the last must be able to fail: it starts with something that consumes
        m = 2 + rng.below(3 if depth > 1 else 14)
        alts = []
        for _ in range(m - 1):
            a = consuming_atom(rng, i, n)
            alts.append(("seq", [a, sub()]) if rng.chance(1, 3) else a)
        alts.append(sub())
        return ("alt", alts)
    if k == 5:
        return ("opt", sub())
    if k == 6:
        return ("star", body())
    if k == 7:
        return ("plus", body())
    if k == 8:
        a = 1 + rng.below(3)
        kind = rng.below(4)
        return ("rep", body(), kind, a, a + rng.below(3) + (1 if kind == 2 else 0))
    if k == 9:
        return ("seq", [("pos", sub()), sub()])
    if k == 10:
        return ("seq", [("neg", sub()), consuming_atom(rng, i, n)])
    if k == 11:
        return ("seq", [("push", sub()), ("stackop", rng.pick(STACK_OPS))])
    if k == 12 and i > 0:
        # backward (possibly recursive) reference behind a consumed literal
        return ("seq", [("lit", rng.pick(WORDS)), ("opt", ("ref", rng.below(i + 1)))])
    return consuming_atom(rng, i, n)


ODD_NAMES = ["type", "match", "loop", "mod", "fn", "self_", "gen", "Box", "Option", "rules", "generics", "pairs", "Rule", "wrapper", "unicode", "str", "usize", "r_0", "ÿ", "_x"]


def build(seed, odd_names=False, rich=False):
    rng = SplitMix(seed)
    # carried by the generator object, not by module state: reference expansions are computed on pool threads concurrently
    rng.rich = rich
    g = Grammar()
    n = 2 + rng.below(9)
    if rng.chance(1, 3):
        g.header.append("//! Grammar %d." % (seed % 1000))
    if rng.chance(1, 2):
        g.header.append('WHITESPACE = %s{ " " | "\\t" }' % rng.pick(["_", ""]))
        g.skip = True
    if rng.chance(1, 4):
        g.header.append('COMMENT = _{ "#" ~ (!NEWLINE ~ ANY)* }')
        g.skip = True
    for i in range(n):
        doc = "/// Rule number %d." % i if rng.chance(1, 3) else None
        mod = rng.pick(["", "", "", "_", "@", "$", "!"])
        body = expr(rng, i, n, 1 + rng.below(3))
        if not rng.chance(1, 6):
            # most rules can fail (a rule that cannot fail makes every choice it heads unreachable for pest's validator)
            body = ("seq", [consuming_atom(rng, i, n), body])
        g.rules.append((i, mod, doc, body))
    g.order = list(range(n))
    if rng.chance(1, 2):
        # definition order must not matter
        for k in range(n - 1, 0, -1):
            j = rng.below(k + 1)
            g.order[k], g.order[j] = g.order[j], g.order[k]
    if odd_names:
        # a separate stream, so that the structure of grammar `seed` is the same with and without odd names
        nr = SplitMix(seed ^ 0x5EED0DD)
        if nr.chance(1, 3):
            pool = list(ODD_NAMES)
            for i in range(n):
                if pool and nr.chance(1, 3):
                    g.names[i] = pool.pop(nr.below(len(pool)))
    return g


def esc(s):
    return s.replace("\\", "\\\\").replace('"', '\\"')


def render_expr(e, g=None):
    t = e[0]
    if t == "lit":
        return '"%s"' % esc(e[1])
    if t == "ins":
        return '^"%s"' % esc(e[1])
    if t == "range":
        return "'%s'..'%s'" % (e[1], e[2])
    if t == "builtin":
        return e[1]
    if t == "ref":
        return g.name(e[1]) if g else "r%d" % e[1]
    if t == "push":
        return "PUSH(%s)" % render_expr(e[1], g)
    if t == "stackop" or t == "peekslice" or t == "builtin_raw":
        return e[1]
    if t == "skipuntil":
        return "(!(" + " | ".join('"%s"' % x for x in e[1]) + ") ~ ANY)*"
    if t == "seq":
        return "(" + " ~ ".join(render_expr(x, g) for x in e[1]) + ")"
    if t == "alt":
        return "(" + " | ".join(render_expr(x, g) for x in e[1]) + ")"
    if t == "opt":
        return "(" + render_expr(e[1], g) + ")?"
    if t == "star":
        return "(" + render_expr(e[1], g) + ")*"
    if t == "plus":
        return "(" + render_expr(e[1], g) + ")+"
    if t == "rep":
        _, b, kind, a, c = e
        form = ["{%d}" % a, "{%d,}" % a, "{,%d}" % c, "{%d,%d}" % (a, c)][kind]
        return "(" + render_expr(b, g) + ")" + form
    if t == "pos":
        return "&" + render_expr(e[1], g)
    if t == "neg":
        return "!" + render_expr(e[1], g)
    raise ValueError(t)


def render(g):
    lines = list(g.header)
    for i in g.order:
        _, mod, doc, body = g.rules[i]
        if doc:
            lines.append(doc)
        lines.append("%s = %s{ %s }" % (g.name(i), mod, render_expr(body, g)))
    return "\n".join(lines) + "\n"


def grammar(seed):
    return render(build(seed, odd_names=True, rich=(seed % 2 == 0)))


def edited_grammar(seed, edit_seed):
    """Grammar `seed` after a user's edit: the rule table (names, kinds, order, WHITESPACE/COMMENT) stays what it was, one to
    three rule bodies are rewritten so that the reference structure changes - a backward reference behind a literal closes a
    cycle, a by-value forward reference lengthens one, a plain atom removes the rule's edges. This is what a long-lived
    proc-macro server (an editor session) is handed again and again; its own PRNG stream, so grammar `seed` itself is untouched."""
    g = build(seed, odd_names=True, rich=(seed % 2 == 0))
    er = SplitMix(edit_seed ^ 0xED17ED17)
    n = len(g.rules)
    for _ in range(1 + er.below(3)):
        i = er.below(n)
        idx, mod, doc, _body = g.rules[i]
        k = er.below(4)
        if k == 0:
            body = ("seq", [("lit", er.pick(WORDS)), ("opt", ("ref", er.below(i + 1)))])
        elif k == 1 and i + 1 < n:
            body = ("seq", [("lit", er.pick(WORDS)), ("ref", i + 1 + er.below(n - i - 1))])
        elif k == 2:
            body = ("seq", [("lit", er.pick(WORDS)), ("alt", [("seq", [("lit", er.pick(WORDS)), ("ref", er.below(n))]), ("lit", er.pick(WORDS))])])
        else:
            body = ("lit", er.pick(WORDS))
        g.rules[i] = (idx, mod, doc, body)
    return render(g)


def sample_expr(g, e, rng, depth, stack, sep):
    """A sentence the expression is likely (not certain) to match."""
    t = e[0]
    if t == "lit":
        return e[1]
    if t == "ins":
        return e[1].upper() if rng.chance(1, 2) else e[1]
    if t == "range":
        return e[3]
    if t == "builtin":
        return BUILTINS[e[1]]
    if t == "ref":
        if depth <= 0:
            return ""
        _, mod, _, body = g.rules[e[1]]
        inner_sep = "" if mod in ("@", "$") else (sep if mod != "!" else (" " if g.skip else ""))
        return sample_expr(g, body, rng, depth - 1, stack, inner_sep)
    if t == "push":
        s = sample_expr(g, e[1], rng, depth, stack, sep)
        stack.append(s)
        return s
    if t == "stackop":
        if not stack:
            return ""
        op = e[1]
        if op in ("PEEK", "PEEK[-1..]"):
            return stack[-1]
        if op == "POP":
            return stack.pop()
        if op == "PEEK_ALL":
            return "".join(reversed(stack))
        if op == "POP_ALL":
            s = "".join(reversed(stack))
            del stack[:]
            return s
        if op == "PEEK[0..1]":
            return stack[0]
        if op == "DROP":
            stack.pop()
            return ""
    if t == "seq":
        parts = [sample_expr(g, x, rng, depth, stack, sep) for x in e[1]]
        out = ""
        for p, x in zip(parts, e[1]):
            if out and p and sep and x[0] not in ("pos", "neg") and rng.chance(1, 3):
                out += sep
            out += p
        return out
    if t == "alt":
        return sample_expr(g, rng.pick(e[1]), rng, depth, stack, sep)
    if t == "opt":
        return sample_expr(g, e[1], rng, depth, stack, sep) if rng.chance(1, 2) and depth > 0 else ""
    if t in ("star", "plus", "rep"):
        if t == "star":
            k = rng.below(3)
        elif t == "plus":
            k = 1 + rng.below(2)
        else:
            _, b, kind, a, c = e
            k = [a, a + rng.below(2), rng.below(c + 1), a + rng.below(c - a + 1)][kind]
        if depth <= 0:
            k = min(k, 1 if t != "star" else 0) if t != "rep" else k
        out = ""
        for j in range(k):
            p = sample_expr(g, e[1], rng, depth - 1 if depth > 0 else 0, stack, sep)
            if out and p and sep and rng.chance(1, 3):
                out += sep
            out += p
        return out
    if t in ("pos", "neg", "builtin_raw"):
        return ""
    if t == "peekslice":
        inner = e[1][len("PEEK["):-1]
        lo, hi = inner.split("..")
        n = len(stack)
        a = int(lo) if lo else 0
        b = int(hi) if hi else n
        a = a + n if a < 0 else a
        b = b + n if b < 0 else b
        return "".join(stack[a:b]) if 0 <= a <= b <= n else ""
    if t == "skipuntil":
        # text over the terminators' alphabet that avoids completing one (checked), often ending in a partial match
        alphabet = sorted(set("".join(e[1]).replace('\\', "")))
        out = ""
        for _ in range(rng.below(7)):
            c = rng.pick(alphabet)
            if not any(x.replace('\\"', '"') in (out + c) for x in e[1]):
                out += c
        return out
    raise ValueError(t)


def sample(g, rule, rng):
    _, mod, _, body = g.rules[rule]
    sep = " " if (g.skip and mod not in ("@", "$")) else ""
    return sample_expr(g, body, rng, 3, [], sep)
