"""Shared driver code: building runners from /repo's working tree, seeds, evidence, known findings.

Exit codes of every check: 0 held / 1 violation (a `VIOLATION property=<id> replay=<path>` line was
printed) / 2 harness error (never reported as a violation).
"""
import hashlib
import json
import os
import shutil
import subprocess
import sys
import time

VERIF = os.path.dirname(os.path.dirname(os.path.abspath(__file__)))
REPO = os.path.abspath(os.environ.get("VERIF_REPO", "/repo"))
GUARD = "pest_typed_verif"
MASK = (1 << 64) - 1


class HarnessError(Exception):
    pass


def seed_from_env():
    try:
        return int(os.environ.get("VERIF_SEED", "1")) & MASK
    except ValueError:
        raise HarnessError("VERIF_SEED is not an integer")


class SplitMix:
    """Same generator as the Rust runners (SplitMix64)."""

    def __init__(self, seed):
        self.s = seed & MASK

    def next(self):
        self.s = (self.s + 0x9E3779B97F4A7C15) & MASK
        z = self.s
        z = ((z ^ (z >> 30)) * 0xBF58476D1CE4E5B9) & MASK
        z = ((z ^ (z >> 27)) * 0x94D049BB133111EB) & MASK
        return z ^ (z >> 31)

    def below(self, n):
        return self.next() % n if n > 0 else 0

    def chance(self, num, den):
        return self.next() % den < num

    def pick(self, seq):
        return seq[self.below(len(seq))]


def mix(a, b):
    s = SplitMix((a ^ ((b * 0xD6E8FEB86659FD93) & MASK)) & MASK)
    s.next()
    return s.next()


def tag(s):
    return int.from_bytes(hashlib.sha256(s.encode()).digest()[:8], "little")


def build_root():
    """Build output lives under /verif/build for /repo and under a per-path directory for scratch copies."""
    if REPO == "/repo":
        return os.path.join(VERIF, "build")
    h = hashlib.sha256(REPO.encode()).hexdigest()[:12]
    return os.path.join(VERIF, "build", "alt-" + h)


def cargo_env(rustflags=""):
    env = dict(os.environ)
    env["CARGO_NET_OFFLINE"] = "true"
    env["CARGO_TARGET_DIR"] = os.path.join(build_root(), "target")
    env["RUSTFLAGS"] = rustflags
    env.pop("RUSTC_WRAPPER", None)
    return env


def build_runner(name, features=(), rustflags="--cfg " + GUARD, bin_name=None, quiet=True, variant=None):
    """(Re)build runner `name` against the current working tree of REPO. Returns the binary path.

    The manifest is generated from sim/<name>/Cargo.toml.in with path dependencies into REPO, REPO's
    Cargo.lock is copied next to it, so nothing is resolved afresh and nothing is fetched.
    """
    src = os.path.join(VERIF, "sim", name)
    dirname = name if variant is None else name + "-" + variant
    dst = os.path.join(build_root(), dirname)
    os.makedirs(dst, exist_ok=True)
    tmpl = open(os.path.join(src, "Cargo.toml.in")).read()
    manifest = tmpl.replace("@REPO@", REPO).replace("@VERIF@", VERIF)
    mpath = os.path.join(dst, "Cargo.toml")
    if not os.path.exists(mpath) or open(mpath).read() != manifest:
        open(mpath, "w").write(manifest)
    for entry in os.listdir(src):
        if entry == "Cargo.toml.in":
            continue
        link = os.path.join(dst, entry)
        if os.path.islink(link) or os.path.exists(link):
            if os.path.islink(link) and os.readlink(link) == os.path.join(src, entry):
                continue
            if os.path.islink(link):
                os.unlink(link)
            else:
                continue
        os.symlink(os.path.join(src, entry), link)
    lock_src = os.path.join(REPO, "Cargo.lock")
    if not os.path.exists(lock_src):
        raise HarnessError("no Cargo.lock in " + REPO)
    lock_dst = os.path.join(dst, "Cargo.lock")
    if not os.path.exists(lock_dst):
        shutil.copy(lock_src, lock_dst)
    cmd = ["cargo", "build", "--release", "--offline", "--manifest-path", mpath]
    if features:
        cmd += ["--features", ",".join(features)]
    env = cargo_env(rustflags)
    if variant is not None:
        env["CARGO_TARGET_DIR"] = os.path.join(build_root(), "target-" + variant)
    p = subprocess.run(cmd, env=env, stdout=subprocess.PIPE, stderr=subprocess.STDOUT, text=True)
    if p.returncode != 0:
        # retry once with a fresh copy of the lock file (REPO's lock may have changed)
        shutil.copy(lock_src, lock_dst)
        p = subprocess.run(cmd, env=env, stdout=subprocess.PIPE, stderr=subprocess.STDOUT, text=True)
    if p.returncode != 0:
        return None, p.stdout
    return os.path.join(env["CARGO_TARGET_DIR"], "release", bin_name or name), p.stdout


def require_build(name, **kw):
    path, log = build_runner(name, **kw)
    if path is None:
        tail = "\n".join(log.splitlines()[-40:])
        raise HarnessError("build of runner %s against %s failed (a tree that does not compile is not a property violation):\n%s" % (name, REPO, tail))
    return path


def load_known():
    p = os.path.join(VERIF, "known_findings.json")
    if not os.path.exists(p):
        return {"known": [], "fixed": []}
    return json.load(open(p))


def known_for(prop):
    return [k for k in load_known().get("known", []) if k.get("property") == prop]


def write_evidence(prop, tier, seed, level, coverage, assumptions, wall_s, violations, extra=None):
    ev = {
        "property_id": prop,
        "tier": tier,
        "seed": seed,
        "level": level,
        "coverage": coverage,
        "assumptions": assumptions,
        "wall_s": round(wall_s, 3),
        "violations": violations,
    }
    if extra:
        ev.update(extra)
    # evidence/ describes /repo; a run against a scratch copy (sensitivity, seed verification) writes next to its own build output
    evdir = os.path.join(VERIF, "evidence") if REPO == "/repo" else os.path.join(build_root(), "evidence")
    os.makedirs(evdir, exist_ok=True)
    path = os.path.join(evdir, prop + ".json")
    tmp = path + ".tmp"
    with open(tmp, "w") as f:
        json.dump(ev, f, indent=1, ensure_ascii=False, sort_keys=True)
        f.write("\n")
    os.replace(tmp, path)
    return path


def replay_path(prop, name):
    d = os.path.join(VERIF, "replays", prop)
    os.makedirs(d, exist_ok=True)
    return os.path.join(d, name)


def safe_name(s):
    return "".join(ch if ch.isalnum() or ch in "-_." else "_" for ch in s)[:80]


def tier_from(args):
    t = None
    if "--tier" in args:
        t = args[args.index("--tier") + 1]
    t = t or os.environ.get("VERIF_TIER") or "quick"
    if t not in ("quick", "thorough"):
        raise HarnessError("unknown tier " + t)
    return t


def jobs():
    try:
        return max(1, int(os.environ.get("VERIF_JOBS", str(os.cpu_count() or 4))))
    except ValueError:
        return 16


def say(*a):
    print(*a, flush=True)


class Timer:
    def __init__(self):
        self.t0 = time.time()

    def s(self):
        return time.time() - self.t0
