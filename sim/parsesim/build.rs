//! Generates `gen.rs`: one module per corpus grammar with the derive-generated parser and a table of
//! entry points. Rule names and kinds are taken from pest_meta's own parser, not from a regex.
use pest_meta::ast::{Expr, RuleType};
use std::collections::{BTreeMap, BTreeSet};
use pest_meta::parser::{self, Rule};
use std::fmt::Write as _;
use std::{env, fs, path::PathBuf};

fn main() {
    let verif = env::var("SIM_VERIF").unwrap_or_else(|_| "/verif".into());
    let repo = env::var("SIM_REPO").unwrap_or_else(|_| "/repo".into());
    println!("cargo:rerun-if-env-changed=SIM_VERIF");
    println!("cargo:rerun-if-env-changed=SIM_REPO");
    let index_path = format!("{verif}/corpus/index.txt");
    println!("cargo:rerun-if-changed={index_path}");
    let index = fs::read_to_string(&index_path).expect("corpus/index.txt");
    let noopt = env::var("CARGO_FEATURE_OPT_NOOPT").is_ok();
    let mut out = String::new();
    let mut tables = String::new();
    for line in index.lines() {
        let line = line.trim_end();
        if line.is_empty() || line.starts_with('#') {
            continue;
        }
        let f: Vec<&str> = line.split('\t').collect();
        let (name, path, expose, flags) = (f[0], f[1], f[2], f.get(3).copied().unwrap_or(""));
        let path = path.replace("@VERIF@", &verif).replace("@REPO@", &repo);
        println!("cargo:rerun-if-changed={path}");
        if noopt && !flags.split(',').any(|x| x == "noopt_ok") {
            continue;
        }
        let text = fs::read_to_string(&path).unwrap_or_else(|e| panic!("{path}: {e}"));
        let pairs = parser::parse(Rule::grammar_rules, &text).unwrap_or_else(|e| panic!("{path}: {e}"));
        let rules = parser::consume_rules(pairs).unwrap_or_else(|e| panic!("{path}: {e:?}"));
        // Rules that reach `e+`, `e{n,}`, `e{,m}` or `e{n,m}` in a grammar with implicit skipping: the call sites of a
        // recorded C20 finding (known_findings.json); everything else is compared strictly.
        let has_skip = rules.iter().any(|r| r.name == "WHITESPACE" || r.name == "COMMENT");
        let mut direct: BTreeMap<&str, bool> = BTreeMap::new();
        let mut refs: BTreeMap<&str, BTreeSet<String>> = BTreeMap::new();
        for r in rules.iter() {
            let mut d = false;
            let mut rs = BTreeSet::new();
            for e in r.expr.iter_top_down() {
                match e {
                    Expr::RepOnce(_) | Expr::RepMin(..) | Expr::RepMax(..) | Expr::RepMinMax(..) => d = true,
                    Expr::Ident(n) => {
                        rs.insert(n);
                    }
                    _ => {}
                }
            }
            direct.insert(r.name.as_str(), d);
            refs.insert(r.name.as_str(), rs);
        }
        let mut quirk: BTreeSet<String> = direct.iter().filter(|(_, d)| **d).map(|(n, _)| n.to_string()).collect();
        loop {
            let before = quirk.len();
            for (n, rs) in refs.iter() {
                if rs.iter().any(|x| quirk.contains(x)) {
                    quirk.insert(n.to_string());
                }
            }
            if quirk.len() == before {
                break;
            }
        }
        // every string literal of the grammar: used as separators between seed pieces, so that what lies just beyond the end
        // of a sub-range is often the beginning of something the grammar cares about (terminators, keywords, brackets)
        let mut literals: BTreeSet<String> = BTreeSet::new();
        for r in rules.iter() {
            for e in r.expr.iter_top_down() {
                match e {
                    Expr::Str(t) | Expr::Insens(t) => {
                        if !t.is_empty() && t.len() <= 8 {
                            literals.insert(t);
                        }
                    }
                    Expr::Skip(ts) => {
                        for t in ts {
                            literals.insert(t);
                        }
                    }
                    _ => {}
                }
            }
        }
        let literals: Vec<String> = literals.into_iter().collect();
        let seeds_path = format!("{verif}/corpus/{name}.seeds");
        println!("cargo:rerun-if-changed={seeds_path}");
        let seeds = fs::read_to_string(&seeds_path).unwrap_or_default();
        writeln!(out, "pub mod g_{name} {{").unwrap();
        writeln!(out, "    use pest_typed_derive::TypedParser;").unwrap();
        writeln!(out, "    #[allow(dead_code)]").unwrap();
        writeln!(out, "    #[derive(TypedParser)]").unwrap();
        writeln!(out, "    #[grammar = {path:?}]").unwrap();
        for (feat, attr) in [
            ("opt_box", "box_only_if_needed"),
            ("opt_ref", "emit_rule_reference"),
            ("opt_tag", "emit_tagged_node_reference"),
            ("opt_nospan", "do_not_emit_span"),
            ("opt_nowarn", "no_warnings"),
            ("opt_noopt", "pest_optimizer = false"),
        ] {
            writeln!(out, "    #[cfg_attr(feature = {feat:?}, {attr})]").unwrap();
        }
        writeln!(out, "    pub struct P;").unwrap();
        writeln!(out, "    pub fn table() -> Vec<crate::table::RuleEntry> {{ vec![").unwrap();
        for r in rules.iter() {
            if matches!(r.name.as_str(), "WHITESPACE" | "COMMENT") {
                continue;
            }
            if expose != "*" && !expose.split(',').any(|x| x == r.name) {
                continue;
            }
            let mac = match r.ty {
                RuleType::Silent => "entry_silent",
                RuleType::Atomic => "entry_atomic",
                _ => "entry_full",
            };
            let q = has_skip && quirk.contains(&r.name);
            writeln!(out, "        crate::{mac}!({name:?}, {:?}, {q}, Rule, rules::r#{}),", r.name, r.name).unwrap();
        }
        writeln!(out, "    ] }}").unwrap();
        writeln!(out, "    pub const SEEDS: &str = {seeds:?};").unwrap();
        writeln!(out, "    pub const LITERALS: &[&str] = &{literals:?};").unwrap();
        writeln!(out, "}}").unwrap();
        writeln!(tables, "    v.push(crate::table::Grammar {{ name: {name:?}, entries: g_{name}::table(), seeds: crate::table::parse_seeds(g_{name}::SEEDS), literals: g_{name}::LITERALS }});").unwrap();
    }
    writeln!(out, "pub fn grammars() -> Vec<crate::table::Grammar> {{\n    let mut v = Vec::new();\n{tables}    v\n}}").unwrap();
    let dst = PathBuf::from(env::var("OUT_DIR").unwrap()).join("gen.rs");
    fs::write(dst, out).unwrap();
}
