"""Seeded generator of small pest grammars (the 'programs' dimension of C20's first clause).

Grammars are drawn so that pest's validator accepts most of them: a rule only refers to rules with a
higher index unless the reference is guarded by a consumed literal, repetitions only wrap expressions
that consume input. Whatever pest rejects is still a legitimate step: the expansion then panics, and the
panic must be the same in every environment.
"""
from .common import SplitMix

BUILTINS = ["ANY", "ASCII_DIGIT", "ASCII_ALPHA", "ASCII_ALPHANUMERIC", "ASCII_HEX_DIGIT", "NEWLINE", "LETTER", "NUMBER", "HAN", "EMOJI",
            "UPPERCASE_LETTER", "XID_START", "XID_CONTINUE", "PUNCTUATION"]
WORDS = ["a", "b", "ab", "let", "(", ")", ",", ";", "=", "fn", "0x", "::", "<", ">", "é", "中", "+"]


def lit(rng):
    w = rng.pick(WORDS)
    return '"%s"' % w


def consuming_atom(rng, i, n):
    """An expression that always consumes at least one character."""
    k = rng.below(9)
    if k == 0:
        return "^" + lit(rng)
    if k == 1:
        a = rng.pick(["'a'..'z'", "'0'..'9'", "'A'..'F'", "'\\u{4e00}'..'\\u{9fff}'"])
        return a
    if k == 2:
        return rng.pick(BUILTINS)
    if k == 3 and i + 1 < n:
        return "r%d" % (i + 1 + rng.below(n - i - 1))
    if k == 4:
        return "PUSH(%s)" % lit(rng)
    return lit(rng)


def expr(rng, i, n, depth):
    if depth <= 0:
        return consuming_atom(rng, i, n)
    k = rng.below(14)
    sub = lambda: expr(rng, i, n, depth - 1)
    if k <= 2:
        m = 2 + rng.below(3 if depth > 1 else 14)  # occasionally long sequences (13+ members)
        return "(" + " ~ ".join(sub() for _ in range(m)) + ")"
    if k <= 4:
        # every alternative but the last must be able to fail: it starts with something that consumes
        m = 2 + rng.below(3 if depth > 1 else 14)
        alts = [consuming_atom(rng, i, n) + (" ~ " + sub() if rng.chance(1, 3) else "") for _ in range(m - 1)] + [sub()]
        return "(" + " | ".join(alts) + ")"
    if k == 5:
        return "(" + sub() + ")?"
    # a repetition body must make progress: it starts with something that consumes
    body = lambda: consuming_atom(rng, i, n) + (" ~ " + sub() if rng.chance(1, 2) else "")
    if k == 6:
        return "(" + body() + ")*"
    if k == 7:
        return "(" + body() + ")+"
    if k == 8:
        a = 1 + rng.below(3)
        form = rng.pick(["{%d}" % a, "{%d,}" % a, "{,%d}" % (a + 1), "{%d,%d}" % (a, a + rng.below(3))])
        return "(" + body() + ")" + form
    if k == 9:
        return "(&" + sub() + " ~ " + sub() + ")"
    if k == 10:
        return "(!" + sub() + " ~ " + consuming_atom(rng, i, n) + ")"
    if k == 11:
        # stack use, guarded by a push so that most inputs behave
        return "(PUSH(" + sub() + ") ~ " + rng.pick(["PEEK", "POP", "PEEK_ALL", "POP_ALL", "PEEK[0..1]", "PEEK[-1..]", "DROP"]) + ")"
    if k == 12 and i > 0:
        # backward (possibly recursive) reference behind a consumed literal
        return "(" + lit(rng) + " ~ r%d?)" % rng.below(i + 1)
    return consuming_atom(rng, i, n)


def grammar(seed):
    rng = SplitMix(seed)
    n = 2 + rng.below(9)
    lines = []
    if rng.chance(1, 3):
        lines.append("//! Grammar %d." % (seed % 1000))
    if rng.chance(1, 2):
        lines.append('WHITESPACE = %s{ " " | "\\t" }' % rng.pick(["_", ""]))
    if rng.chance(1, 4):
        lines.append('COMMENT = _{ "#" ~ (!NEWLINE ~ ANY)* }')
    order = list(range(n))
    for i in order:
        if rng.chance(1, 3):
            lines.append("/// Rule number %d." % i)
        mod = rng.pick(["", "", "", "_", "@", "$", "!"])
        body = expr(rng, i, n, 1 + rng.below(3))
        if not rng.chance(1, 6):
            # most rules can fail (a rule that cannot fail makes every choice it heads unreachable for pest's validator)
            body = consuming_atom(rng, i, n) + " ~ " + body
        lines.append("r%d = %s{ %s }" % (i, mod, body))
    # rules are listed in a seeded order (definition order must not matter for determinism)
    if rng.chance(1, 2):
        head = [l for l in lines if not l.startswith("r") and not l.startswith("///")]
        rules = []
        cur = []
        for l in lines:
            if l.startswith("///"):
                cur.append(l)
            elif l.startswith("r"):
                cur.append(l)
                rules.append(cur)
                cur = []
        for k in range(len(rules) - 1, 0, -1):
            j = rng.below(k + 1)
            rules[k], rules[j] = rules[j], rules[k]
        lines = head + [l for r in rules for l in r]
    return "\n".join(lines) + "\n"
