//! The simulated environment of the formatter: sink, callbacks, fault plan, one execution.
use pest_typed::{FormatOption, Position, Span};
use serde_json::{json, Value};
use std::cell::RefCell;
use std::fmt::{self, Write};
use std::panic::{self, AssertUnwindSafe};

#[derive(Clone, Debug, PartialEq, Eq)]
pub struct Case {
    pub text: String,
    pub a: usize,
    pub b: usize,
    pub is_pos: bool,
}
impl Case {
    pub fn valid(&self) -> bool {
        self.a <= self.b
            && self.b <= self.text.len()
            && self.text.is_char_boundary(self.a)
            && self.text.is_char_boundary(self.b)
            && (!self.is_pos || self.a == self.b)
    }
    pub fn to_json(&self) -> Value {
        json!({"text": self.text, "start": self.a, "end": self.b, "kind": if self.is_pos {"position"} else {"span"}})
    }
    pub fn from_json(j: &Value) -> Option<Case> {
        Some(Case {
            text: j.get("text")?.as_str()?.to_string(),
            a: j.get("start")?.as_u64()? as usize,
            b: j.get("end")?.as_u64()? as usize,
            is_pos: j.get("kind")?.as_str()? == "position",
        })
    }
}

#[derive(Clone, Copy, Debug, PartialEq, Eq)]
pub enum Api {
    /// `x.to_string()` (core::fmt::Formatter over std's String; default option)
    ToString = 0,
    /// `write!(sim_writer, "{}", x)` (core::fmt::Formatter over the simulated sink; default option)
    WriteMacro = 1,
    /// `x.display(&mut sim_writer, Default::default())`
    Default = 2,
    /// `x.display(&mut sim_writer, FormatOption::new(rec_span, rec_marker, rec_number))`
    Custom = 3,
    /// custom option whose callbacks DECORATE what they are given (`{text}`, `[marker]`, `<number>`), i.e. write a different
    /// number of cells than they received, as a colouring option does: only "returns", the sequence of line numbers handed to
    /// the number callback and the texts handed to the span callback are judged
    Decor = 4,
    /// `write!(sim_writer, "{:>40}" | "{:#}" | "{:.3}" | "{:^7}" | "{:08}" | "{:<1$}", x)`: Display through a Formatter that
    /// carries width / fill / precision / alternate flags. Only "returns Ok without panicking" is judged.
    Flags = 5,
}
impl Api {
    pub const ALL: [Api; 6] = [Api::ToString, Api::WriteMacro, Api::Default, Api::Custom, Api::Decor, Api::Flags];
    pub fn name(&self) -> &'static str {
        match self {
            Api::ToString => "to_string",
            Api::WriteMacro => "write_macro",
            Api::Default => "display_default",
            Api::Custom => "custom",
            Api::Decor => "custom_decorating",
            Api::Flags => "write_macro_with_format_flags",
        }
    }
    pub fn from_name(s: &str) -> Option<Api> {
        Api::ALL.into_iter().find(|a| a.name() == s)
    }
}

/// One fault per execution: the `index`-th call (1-based) of the chosen channel fails.
/// channel: 0 span_formatter, 1 marker_formatter, 2 number_formatter, 3 sink write_str, 255 none.
/// channels 10 (sink) and 11..=13 (callback 0..=2) are not failures but RE-ENTRY: at its index-th call the sink / callback,
/// being caller code, formats another Span and Position itself (a logging writer, a decorating option that quotes a location)
/// before doing its job. With `sticky` every later call re-enters too.
#[derive(Clone, Debug, PartialEq, Eq)]
pub struct Plan {
    pub channel: u8,
    pub index: usize,
    /// every later call of that channel fails as well
    pub sticky: bool,
    /// callback faults only: the callback writes its text and then reports the error
    pub cb_after_write: bool,
    /// calls (sink + callbacks) after which the sink aborts the execution ("does not return")
    pub cap: usize,
}
impl Plan {
    pub fn none() -> Plan {
        Plan { channel: 255, index: 0, sticky: false, cb_after_write: false, cap: 1_000_000 }
    }
    pub fn is_none(&self) -> bool {
        self.channel == 255
    }
    pub fn sink(index: usize, sticky: bool, n: usize) -> Plan {
        Plan { channel: 3, index, sticky, cb_after_write: false, cap: 10 * n + 100 }
    }
    pub fn cb(ch: usize, index: usize, sticky: bool, after: bool, n: usize) -> Plan {
        Plan { channel: ch as u8, index, sticky, cb_after_write: after, cap: 10 * n + 100 }
    }
    pub fn reenter(target: u8, index: usize, sticky: bool, n: usize) -> Plan {
        Plan { channel: 10 + target, index, sticky, cb_after_write: false, cap: 10 * n + 100 }
    }
    pub fn to_json(&self) -> Value {
        if self.is_none() {
            return json!({"channel": "none"});
        }
        let name = CHANNEL_NAMES[self.channel as usize];
        json!({"channel": name,
               "index": self.index, "sticky": self.sticky, "cb_after_write": self.cb_after_write, "cap": self.cap})
    }
    pub fn from_json(j: &Value) -> Option<Plan> {
        let ch = j.get("channel")?.as_str()?;
        if ch == "none" {
            return Some(Plan::none());
        }
        let channel = CHANNEL_NAMES.iter().position(|c| *c == ch)? as u8;
        Some(Plan {
            channel,
            index: j.get("index")?.as_u64()? as usize,
            sticky: j.get("sticky")?.as_bool()?,
            cb_after_write: j.get("cb_after_write")?.as_bool()?,
            cap: j.get("cap")?.as_u64()? as usize,
        })
    }
}

pub const CHANNEL_NAMES: [&str; 14] = ["span_formatter", "marker_formatter", "number_formatter", "sink", "", "", "", "", "", "",
    "reenter_from_sink", "reenter_from_span_formatter", "reenter_from_marker_formatter", "reenter_from_number_formatter"];

/// What re-entering caller code does: format another span and another position of another text with the default option.
fn reenter() {
    let t = "ab\ncd\nef";
    let _ = Span::new(t, 1, 7).map(|s| s.to_string());
    let _ = Span::new(t, 4, 5).map(|s| s.to_string());
    let _ = Position::new(t, 8).map(|p| p.to_string());
}

#[derive(Clone, Debug)]
pub struct Event {
    pub channel: u8,
    pub text: String,
    /// row (count of '\n' written so far) and byte offset in `out` at call time
    pub row: usize,
    pub out_len: usize,
}

#[derive(Clone, Debug)]
pub enum Outcome {
    Ok,
    Err,
    Panic(String),
    /// the step cap was exceeded: the call does not return under this fault
    Cap,
}
impl Outcome {
    pub fn name(&self) -> String {
        match self {
            Outcome::Ok => "ok".into(),
            Outcome::Err => "err".into(),
            Outcome::Panic(m) => format!("panic: {m}"),
            Outcome::Cap => "step-cap".into(),
        }
    }
}

pub struct Exec {
    pub outcome: Outcome,
    pub out: String,
    pub out_before_first_error: String,
    pub events: Vec<Event>,
    pub sink_calls: usize,
    pub cb_calls: [usize; 3],
    pub sink_faults_fired: usize,
    pub cb_faults_fired: [usize; 3],
    pub calls_after_first_error: usize,
    pub reentries: usize,
}

struct StepCap;

pub struct SimWriter {
    out: String,
    rows: usize,
    sink_calls: usize,
    cb_calls: [usize; 3],
    total_calls: usize,
    plan: Plan,
    sink_faults_fired: usize,
    cb_faults_fired: [usize; 3],
    first_error_at: Option<usize>,
    calls_after_first_error: usize,
    reentries: usize,
    events: Vec<Event>,
}
impl SimWriter {
    fn new(plan: &Plan) -> Self {
        SimWriter {
            out: String::new(),
            rows: 0,
            sink_calls: 0,
            cb_calls: [0; 3],
            total_calls: 0,
            plan: plan.clone(),
            sink_faults_fired: 0,
            cb_faults_fired: [0; 3],
            first_error_at: None,
            calls_after_first_error: 0,
            reentries: 0,
            events: Vec::new(),
        }
    }
    fn tick(&mut self) {
        self.total_calls += 1;
        if self.first_error_at.is_some() {
            self.calls_after_first_error += 1;
        }
        if self.total_calls > self.plan.cap {
            panic::panic_any(StepCap);
        }
    }
    fn hit(&self, channel: u8, count: usize) -> bool {
        self.plan.channel == channel && (count == self.plan.index || (self.plan.sticky && count > self.plan.index))
    }
    fn callback_decor(&mut self, ch: usize, s: &str) -> fmt::Result {
        let (l, r) = [("{", "}"), ("[", "]"), ("<", ">")][ch];
        let decorated = format!("\u{1b}[3{}m{l}{s}{r}\u{1b}[0m", ch + 1);
        // same fault points as the plain recording callback, the text written differs
        self.tick();
        self.cb_calls[ch] += 1;
        self.events.push(Event { channel: ch as u8, text: s.to_string(), row: self.rows, out_len: self.out.len() });
        let hit = self.hit(ch as u8, self.cb_calls[ch]);
        if hit && !self.plan.cb_after_write {
            self.cb_faults_fired[ch] += 1;
            self.first_error_at.get_or_insert(self.out.len());
            return Err(fmt::Error);
        }
        self.write_str(&decorated)?;
        if hit {
            self.cb_faults_fired[ch] += 1;
            self.first_error_at.get_or_insert(self.out.len());
            return Err(fmt::Error);
        }
        Ok(())
    }
    fn callback(&mut self, ch: usize, s: &str) -> fmt::Result {
        self.tick();
        self.cb_calls[ch] += 1;
        if self.hit(11 + ch as u8, self.cb_calls[ch]) {
            self.reentries += 1;
            reenter();
        }
        self.events.push(Event { channel: ch as u8, text: s.to_string(), row: self.rows, out_len: self.out.len() });
        let hit = self.hit(ch as u8, self.cb_calls[ch]);
        if hit && !self.plan.cb_after_write {
            self.cb_faults_fired[ch] += 1;
            self.first_error_at.get_or_insert(self.out.len());
            return Err(fmt::Error);
        }
        self.write_str(s)?;
        if hit {
            self.cb_faults_fired[ch] += 1;
            self.first_error_at.get_or_insert(self.out.len());
            return Err(fmt::Error);
        }
        Ok(())
    }
}
impl fmt::Write for SimWriter {
    fn write_str(&mut self, s: &str) -> fmt::Result {
        self.tick();
        self.sink_calls += 1;
        if self.hit(10, self.sink_calls) {
            self.reentries += 1;
            reenter();
        }
        if self.hit(3, self.sink_calls) {
            self.sink_faults_fired += 1;
            self.first_error_at.get_or_insert(self.out.len());
            return Err(fmt::Error);
        }
        self.rows += s.bytes().filter(|b| *b == b'\n').count();
        self.out.push_str(s);
        Ok(())
    }
}

thread_local! {
    static LAST_PANIC: RefCell<String> = RefCell::new(String::new());
}

/// Panics are expected events of the simulation: record message and location, print nothing.
pub fn install_quiet_panic_hook() {
    panic::set_hook(Box::new(|info| {
        let msg = if let Some(s) = info.payload().downcast_ref::<&str>() {
            s.to_string()
        } else if let Some(s) = info.payload().downcast_ref::<String>() {
            s.clone()
        } else {
            "<non-string payload>".to_string()
        };
        let loc = info.location().map(|l| format!("{}:{}", l.file(), l.line())).unwrap_or_default();
        LAST_PANIC.with(|p| *p.borrow_mut() = format!("{msg} @ {loc}"));
    }));
}

enum Obj<'i> {
    S(Span<'i>),
    P(Position<'i>),
}

pub fn execute(c: &Case, api: Api, plan: &Plan) -> Exec {
    let obj = if c.is_pos {
        Obj::P(Position::new(&c.text, c.a).expect("valid position"))
    } else {
        Obj::S(Span::new(&c.text, c.a, c.b).expect("valid span"))
    };
    let mut w = SimWriter::new(plan);
    let r = panic::catch_unwind(AssertUnwindSafe(|| -> Result<Option<String>, fmt::Error> {
        match api {
            Api::ToString => Ok(Some(match &obj {
                Obj::S(s) => s.to_string(),
                Obj::P(p) => p.to_string(),
            })),
            Api::WriteMacro => match &obj {
                Obj::S(s) => write!(w, "{}", s).map(|_| None),
                Obj::P(p) => write!(w, "{}", p).map(|_| None),
            },
            Api::Flags => {
                // which flags: a function of the case, so that a replay uses the same ones
                let k = (c.text.len() + c.a * 3 + c.b * 7) % 6;
                macro_rules! go {
                    ($x:expr) => {
                        match k {
                            0 => write!(w, "{:>40}", $x),
                            1 => write!(w, "{:#}", $x),
                            2 => write!(w, "{:.3}", $x),
                            3 => write!(w, "{:^7}", $x),
                            4 => write!(w, "{:08}", $x),
                            _ => write!(w, "{:<1$}", $x, 60000),
                        }
                    };
                }
                match &obj {
                    Obj::S(s) => go!(s).map(|_| None),
                    Obj::P(p) => go!(p).map(|_| None),
                }
            }
            Api::Default => match &obj {
                Obj::S(s) => s.display(&mut w, Default::default()).map(|_| None),
                Obj::P(p) => p.display(&mut w, Default::default()).map(|_| None),
            },
            Api::Custom => {
                let opt = FormatOption::new::<SimWriter>(
                    |s: &str, w: &mut SimWriter| w.callback(0, s),
                    |s: &str, w: &mut SimWriter| w.callback(1, s),
                    |s: &str, w: &mut SimWriter| w.callback(2, s),
                );
                match &obj {
                    Obj::S(s) => s.display(&mut w, opt).map(|_| None),
                    Obj::P(p) => p.display(&mut w, opt).map(|_| None),
                }
            }
            Api::Decor => {
                let opt = FormatOption::new::<SimWriter>(
                    |s: &str, w: &mut SimWriter| w.callback_decor(0, s),
                    |s: &str, w: &mut SimWriter| w.callback_decor(1, s),
                    |s: &str, w: &mut SimWriter| w.callback_decor(2, s),
                );
                match &obj {
                    Obj::S(s) => s.display(&mut w, opt).map(|_| None),
                    Obj::P(p) => p.display(&mut w, opt).map(|_| None),
                }
            }
        }
    }));
    let (outcome, text) = match r {
        Ok(Ok(t)) => (Outcome::Ok, t),
        Ok(Err(_)) => (Outcome::Err, None),
        Err(payload) => {
            if payload.downcast_ref::<StepCap>().is_some() {
                (Outcome::Cap, None)
            } else {
                (Outcome::Panic(LAST_PANIC.with(|p| p.borrow().clone())), None)
            }
        }
    };
    let out = text.unwrap_or_else(|| w.out.clone());
    let before = match w.first_error_at {
        Some(n) => w.out[..n.min(w.out.len())].to_string(),
        None => w.out.clone(),
    };
    Exec {
        outcome,
        out,
        out_before_first_error: before,
        events: w.events,
        sink_calls: w.sink_calls,
        cb_calls: w.cb_calls,
        sink_faults_fired: w.sink_faults_fired,
        cb_faults_fired: w.cb_faults_fired,
        calls_after_first_error: w.calls_after_first_error,
        reentries: w.reentries,
    }
}
