//! fmtsim — deterministic simulation of `Span`/`Position` display (property C14).
//!
//! System under test: the real `pest_typed` formatter, built from the working tree with
//! `--cfg pest_typed_verif` (re-export of `FormatOption`).
//! Simulated: the caller-supplied sink (`SimWriter`, a `fmt::Write`) and the three caller-supplied
//! formatter callbacks. Both consult a fault plan; one seed decides every case and every fault.
//!
//! Sub-commands
//!   run    --seed N --tier quick|thorough --threads N --out FILE [--replay-dir DIR]
//!   replay FILE            re-executes one recorded case; prints `REPRODUCED <class>` / `NOT-REPRODUCED`
//!   show   FILE            prints the rendering of a recorded case (diagnostics only)
mod model;
mod sim;

use serde_json::{json, Value};
use sim::*;
use std::collections::{BTreeMap, HashSet};
use std::sync::atomic::{AtomicUsize, Ordering};
use std::sync::Mutex;
use std::time::Instant;

pub const ALPHABET: [char; 6] = ['\n', '\r', '\t', 'a', '中', 'ß'];

#[derive(Clone, Copy)]
pub struct SplitMix(pub u64);
impl SplitMix {
    pub fn next(&mut self) -> u64 {
        self.0 = self.0.wrapping_add(0x9E3779B97F4A7C15);
        let mut z = self.0;
        z = (z ^ (z >> 30)).wrapping_mul(0xBF58476D1CE4E5B9);
        z = (z ^ (z >> 27)).wrapping_mul(0x94D049BB133111EB);
        z ^ (z >> 31)
    }
    pub fn below(&mut self, n: usize) -> usize {
        if n == 0 {
            0
        } else {
            (self.next() % n as u64) as usize
        }
    }
    pub fn chance(&mut self, num: u64, den: u64) -> bool {
        self.next() % den < num
    }
}
pub fn mix(a: u64, b: u64) -> u64 {
    let mut s = SplitMix(a ^ b.wrapping_mul(0xD6E8FEB86659FD93));
    s.next();
    s.next()
}

fn fnv(s: &[u8], mut h: u64) -> u64 {
    for b in s {
        h ^= *b as u64;
        h = h.wrapping_mul(0x100000001b3);
    }
    h
}

/// Boundaries (byte offsets) of `text`, including 0 and len.
fn boundaries(text: &str) -> Vec<usize> {
    let mut v: Vec<usize> = text.char_indices().map(|(i, _)| i).collect();
    v.push(text.len());
    v
}

#[derive(Default)]
struct Stats {
    executions: u64,
    fault_free: u64,
    faulted: u64,
    sink_faults_fired: u64,
    cb_faults_fired: [u64; 3],
    sticky_plans: u64,
    calls_after_first_error: u64,
    reentries: u64,
    err_returned_under_fault: u64,
    ok_returned_under_fault: u64,
    prefix_mismatch_under_fault: u64,
    api_text_mismatch: u64,
    cases: u64,
    nontrivial: u64,
    sampled_hashes: HashSet<u64>,
    // reach probes
    p_empty_input: u64,
    p_eoi: u64,
    p_line_start: u64,
    p_multi_line: u64,
    p_over5_lines: u64,
    p_wide: u64,
    p_no_trailing_nl: u64,
    p_label_width_ge2: u64,
    p_label_width_ge4: u64,
    p_label_width_ge5: u64,
    p_exotic: u64,
    p_mark_beyond_65535_cells: u64,
    max_lines: u64,
    violations: Vec<Violation>,
}
impl Stats {
    fn merge(&mut self, o: Stats) {
        self.executions += o.executions;
        self.fault_free += o.fault_free;
        self.faulted += o.faulted;
        self.sink_faults_fired += o.sink_faults_fired;
        for i in 0..3 {
            self.cb_faults_fired[i] += o.cb_faults_fired[i];
        }
        self.sticky_plans += o.sticky_plans;
        self.calls_after_first_error += o.calls_after_first_error;
        self.reentries += o.reentries;
        self.err_returned_under_fault += o.err_returned_under_fault;
        self.ok_returned_under_fault += o.ok_returned_under_fault;
        self.prefix_mismatch_under_fault += o.prefix_mismatch_under_fault;
        self.api_text_mismatch += o.api_text_mismatch;
        self.cases += o.cases;
        self.nontrivial += o.nontrivial;
        self.sampled_hashes.extend(o.sampled_hashes);
        self.p_empty_input += o.p_empty_input;
        self.p_eoi += o.p_eoi;
        self.p_line_start += o.p_line_start;
        self.p_multi_line += o.p_multi_line;
        self.p_over5_lines += o.p_over5_lines;
        self.p_wide += o.p_wide;
        self.p_no_trailing_nl += o.p_no_trailing_nl;
        self.p_label_width_ge2 += o.p_label_width_ge2;
        self.p_label_width_ge4 += o.p_label_width_ge4;
        self.p_label_width_ge5 += o.p_label_width_ge5;
        self.p_exotic += o.p_exotic;
        self.p_mark_beyond_65535_cells += o.p_mark_beyond_65535_cells;
        self.max_lines = self.max_lines.max(o.max_lines);
        self.violations.extend(o.violations);
    }
}

#[derive(Clone, Debug)]
pub struct Violation {
    pub class: String,
    pub detail: String,
    pub case: Case,
    pub api: Api,
    pub plan: Plan,
    pub order: u64,
}

/// How fault points are chosen for one case.
#[derive(Clone, Copy, PartialEq)]
enum FaultMode {
    None,
    Sampled(usize),
    All,
}

fn probes(st: &mut Stats, c: &Case) {
    let t = &c.text;
    let nl = model::lines(t).len() as u64;
    st.max_lines = st.max_lines.max(nl);
    if t.is_empty() {
        st.p_empty_input += 1;
    }
    let (a, b) = (c.a, c.b);
    if b == t.len() {
        st.p_eoi += 1;
    }
    if a > 0 && t.as_bytes()[a - 1] == b'\n' {
        st.p_line_start += 1;
    }
    if b > a {
        let l0 = model::line_of_offset(t, a);
        let l1 = model::line_of_offset(t, b - 1);
        if l1 > l0 {
            st.p_multi_line += 1;
        }
        if l1 - l0 + 1 > 5 {
            st.p_over5_lines += 1;
        }
        if l1 + 1 >= 10 {
            st.p_label_width_ge2 += 1;
        }
        if l1 + 1 >= 1000 {
            st.p_label_width_ge4 += 1;
        }
        if l1 + 1 >= 10000 {
            st.p_label_width_ge5 += 1;
        }
    }
    if t.contains('中') {
        st.p_wide += 1;
    }
    if !model::cells_are_modelled(t) {
        st.p_exotic += 1;
    }
    if a < t.len() && t.len() > 60_000 {
        let ls = model::lines(t);
        let (s0, _) = ls[model::line_of_offset(t, a)];
        if a - s0 > 65_535 {
            st.p_mark_beyond_65535_cells += 1;
        }
    }
    if !t.is_empty() && !t.ends_with('\n') {
        st.p_no_trailing_nl += 1;
    }
}

fn nontrivial(c: &Case) -> bool {
    let t = &c.text;
    t.is_empty()
        || t.chars().any(|ch| ch != 'a')
        || c.b == t.len()
        || (c.a > 0 && t.as_bytes()[c.a - 1] == b'\n')
}

fn case_hash(c: &Case) -> u64 {
    let mut h = fnv(c.text.as_bytes(), 0xcbf29ce484222325);
    h = fnv(&(c.a as u64).to_le_bytes(), h);
    h = fnv(&(c.b as u64).to_le_bytes(), h);
    fnv(&[c.is_pos as u8], h)
}

/// Run one case: fault-free configuration under all four APIs with the reference-model oracle, then
/// the fault-injecting configuration.
fn run_case(st: &mut Stats, c: &Case, order: u64, fm: FaultMode, rng: &mut SplitMix, exhaustive_part: bool) {
    st.cases += 1;
    probes(st, c);
    if nontrivial(c) {
        if exhaustive_part {
            st.nontrivial += 1;
        } else {
            st.sampled_hashes.insert(case_hash(c));
        }
    }
    let mut ff: Vec<(Api, Exec)> = Vec::new();
    for api in Api::ALL {
        let ex = execute(c, api, &Plan::none());
        st.executions += 1;
        st.fault_free += 1;
        for (class, detail) in model::judge_fault_free(c, api, &ex) {
            st.violations.push(Violation { class, detail, case: c.clone(), api, plan: Plan::none(), order });
        }
        ff.push((api, ex));
    }
    // informational: do the four APIs agree on the text?
    if ff.iter().filter(|(a, _)| *a != Api::Decor && *a != Api::Flags).any(|(_, e)| e.out != ff[0].1.out) {
        st.api_text_mismatch += 1;
    }
    if fm == FaultMode::None {
        return;
    }
    for (api, base) in ff.iter() {
        if *api == Api::ToString {
            continue; // std's to_string() has an infallible sink; nothing to inject
        }
        let huge = c.text.len() > 15_000;
        if huge && *api != Api::Custom {
            continue; // rendering a huge text costs ~0.1 s: faults are injected through one API only
        }
        if !matches!(base.outcome, Outcome::Ok) {
            continue; // already judged by the fault-free oracle
        }
        let n = base.sink_calls;
        let mut plans: Vec<Plan> = Vec::new();
        match fm {
            FaultMode::All => {
                for i in 1..=n {
                    plans.push(Plan::sink(i, false, n));
                    if i == 1 || i == n || rng.chance(1, 4) {
                        plans.push(Plan::sink(i, true, n));
                    }
                }
                if *api == Api::Custom || *api == Api::Decor {
                    for ch in 0..3 {
                        for j in 1..=base.cb_calls[ch] {
                            plans.push(Plan::cb(ch, j, false, false, n));
                            plans.push(Plan::cb(ch, j, true, rng.chance(1, 2), n));
                        }
                    }
                }
            }
            FaultMode::Sampled(k) => {
                let k = if huge { 0 } else { k };
                if n > 0 {
                    plans.push(Plan::sink(1, rng.chance(1, 2), n));
                    plans.push(Plan::sink(n, rng.chance(1, 2), n));
                    for _ in 0..k {
                        plans.push(Plan::sink(1 + rng.below(n), rng.chance(1, 3), n));
                    }
                }
                if *api == Api::Custom || *api == Api::Decor {
                    for ch in 0..3 {
                        let m = base.cb_calls[ch];
                        if m > 0 {
                            plans.push(Plan::cb(ch, 1 + rng.below(m), rng.chance(1, 3), rng.chance(1, 2), n));
                            plans.push(Plan::cb(ch, m, rng.chance(1, 3), rng.chance(1, 2), n));
                        }
                    }
                }
            }
            FaultMode::None => {}
        }
        // re-entrant caller code: the sink (every fault-capable API) or a callback (custom options) formats another
        // Span/Position at a seeded call; nothing fails, the rendering must be what it is without re-entry
        if n > 0 && !huge {
            plans.push(Plan::reenter(0, 1 + rng.below(n), rng.chance(1, 2), n));
            if *api == Api::Custom || *api == Api::Decor {
                let ch = rng.below(3);
                if base.cb_calls[ch] > 0 {
                    plans.push(Plan::reenter(1 + ch as u8, 1 + rng.below(base.cb_calls[ch]), rng.chance(1, 2), n));
                }
            }
        }
        for plan in plans {
            let ex = execute(c, *api, &plan);
            st.executions += 1;
            st.faulted += 1;
            if plan.sticky {
                st.sticky_plans += 1;
            }
            st.sink_faults_fired += ex.sink_faults_fired as u64;
            for ch in 0..3 {
                st.cb_faults_fired[ch] += ex.cb_faults_fired[ch] as u64;
            }
            st.calls_after_first_error += ex.calls_after_first_error as u64;
            st.reentries += ex.reentries as u64;
            if plan.channel >= 10 && matches!(ex.outcome, Outcome::Ok) && ex.out != base.out {
                st.violations.push(Violation { class: "reentry-changes-output".to_string(), detail: "the rendering differs when the sink or a callback formats another span meanwhile".to_string(),
                    case: c.clone(), api: *api, plan: plan.clone(), order });
            }
            match ex.outcome {
                Outcome::Ok => st.ok_returned_under_fault += 1,
                Outcome::Err => st.err_returned_under_fault += 1,
                _ => {}
            }
            if !base.out.starts_with(ex.out_before_first_error.as_str()) {
                st.prefix_mismatch_under_fault += 1;
            }
            for (class, detail) in model::judge_faulted(&ex) {
                st.violations.push(Violation { class, detail, case: c.clone(), api: *api, plan: plan.clone(), order });
            }
        }
    }
}

/// The i-th string over ALPHABET in length-then-lexicographic order, for lengths 0..=max.
fn nth_string(mut idx: u64, max_len: usize) -> Option<String> {
    for len in 0..=max_len {
        let count = 6u64.pow(len as u32);
        if idx < count {
            let mut s = String::new();
            let mut digits = vec![0usize; len];
            for d in (0..len).rev() {
                digits[d] = (idx % 6) as usize;
                idx /= 6;
            }
            for d in digits {
                s.push(ALPHABET[d]);
            }
            return Some(s);
        }
        idx -= count;
    }
    None
}
fn count_strings(max_len: usize) -> u64 {
    (0..=max_len).map(|l| 6u64.pow(l as u32)).sum()
}

fn all_cases_of(text: &str) -> Vec<Case> {
    let bs = boundaries(text);
    let mut v = Vec::new();
    for (i, &a) in bs.iter().enumerate() {
        v.push(Case { text: text.to_string(), a, b: a, is_pos: true });
        for &b in &bs[i..] {
            v.push(Case { text: text.to_string(), a, b, is_pos: false });
        }
    }
    v
}

/// Characters beyond the property's alphabet, sampled only: every C0 control and DEL (each has its own
/// picture), a second wide character, a 4-byte wide character, a 3-byte narrow one.
pub const EXTENDED: [char; 40] = [
    '\u{0}', '\u{1}', '\u{2}', '\u{3}', '\u{4}', '\u{5}', '\u{6}', '\u{7}', '\u{8}', '\u{9}', '\u{a}', '\u{b}', '\u{c}', '\u{d}', '\u{e}', '\u{f}',
    '\u{10}', '\u{11}', '\u{12}', '\u{13}', '\u{14}', '\u{15}', '\u{16}', '\u{17}', '\u{18}', '\u{19}', '\u{1a}', '\u{1b}', '\u{1c}', '\u{1d}', '\u{1e}', '\u{1f}',
    '\u{7f}', '字', '😀', '∆', ' ', 'Z', '\n', '\n',
];

/// Characters without an agreed cell model: zero-width, combining, ambiguous-width, bidirectional, other "line separators"
/// that are NOT line ends for this crate (only LF is). Sampled; for texts containing them only "returns", line numbers and line
/// text are judged, never marker columns.
pub const EXOTIC: [char; 17] = ['\u{80}', '\u{9b}', '\u{9f}', '\u{301}', '\u{200d}', '\u{fe0f}', '°', '±', '§', '\u{5d0}', '\u{2028}', '\u{2029}', '\u{85}', '\u{feff}', '\u{ad}', '\u{1f1e9}', '\u{e0067}'];

/// Swarm-style random short text: per-case weights, CRLF on/off, trailing newline on/off.
fn random_short(rng: &mut SplitMix, min_len: usize, max_len: usize) -> String {
    let len = min_len + rng.below(max_len - min_len + 1);
    if rng.chance(1, 5) {
        let mut s = String::new();
        for _ in 0..len {
            s.push(if rng.chance(1, 3) { ALPHABET[rng.below(6)] } else { EXTENDED[rng.below(EXTENDED.len())] });
        }
        return s;
    }
    if rng.chance(1, 8) {
        let mut s = String::new();
        for _ in 0..len {
            s.push(if rng.chance(1, 2) { ALPHABET[rng.below(6)] } else { EXOTIC[rng.below(EXOTIC.len())] });
        }
        return s;
    }
    let mut weights = [0usize; 6];
    for w in weights.iter_mut() {
        *w = 1 + rng.below(4);
    }
    let total: usize = weights.iter().sum();
    let mut s = String::new();
    for _ in 0..len {
        let mut r = rng.below(total);
        for (i, w) in weights.iter().enumerate() {
            if r < *w {
                s.push(ALPHABET[i]);
                break;
            }
            r -= *w;
        }
    }
    s
}

/// Long text: many short lines so that line numbers cross 9→10, 99→100, 999→1000.
/// Five-digit line numbers: a handful per run (rendering is quadratic in the number of lines).
fn random_huge(rng: &mut SplitMix) -> String {
    let n_lines = 10_003 + rng.below(30);
    let mut s = String::new();
    for i in 0..n_lines {
        if i % 1000 == 999 {
            s.push('中');
        }
        s.push('\n');
    }
    s
}

/// One very wide line (cheap to render): its length crosses 2^8, 2^15, 2^16, 2^17 cells, where integer widths change.
/// Returns the text and the byte range of the wide line's last few characters.
fn random_wide_line(rng: &mut SplitMix) -> (String, usize, usize) {
    let len = [70usize, 260, 5_000, 33_000, 65_530, 66_000, 70_000, 132_000][rng.below(8)] + rng.below(12);
    let mut s = String::new();
    for _ in 0..rng.below(3) {
        s.push_str("ab\n");
    }
    let start = s.len();
    let wide = rng.chance(1, 3);
    for _ in 0..len {
        s.push(if wide && rng.chance(1, 4) { '中' } else { ['a', 'a', 'ß', '\t'][rng.below(4)] });
    }
    let near_end = s.len();
    s.push_str("yz");
    if rng.chance(3, 4) {
        s.push('\n');
    }
    if rng.chance(1, 2) {
        s.push_str("tail\n");
    }
    (s, start, near_end)
}

fn random_long(rng: &mut SplitMix) -> String {
    let targets = [7usize, 12, 101, 130, 1002, 1200];
    let n_lines = targets[rng.below(targets.len())] + rng.below(3);
    let crlf = rng.chance(1, 3);
    let trailing = rng.chance(2, 3);
    let mut s = String::new();
    for i in 0..n_lines {
        let l = rng.below(4);
        for _ in 0..l {
            s.push(['a', '中', 'ß', '\t', '\r'][rng.below(5)]);
        }
        if i + 1 < n_lines || trailing {
            if crlf {
                s.push('\r');
            }
            s.push('\n');
        }
    }
    s
}

fn random_case_in(rng: &mut SplitMix, text: &str) -> Case {
    let bs = boundaries(text);
    let lines = model::lines(text);
    // bias offsets towards line starts, line ends, EOI and far-apart lines
    let pick = |rng: &mut SplitMix| -> usize {
        if lines.len() > 5000 && rng.chance(2, 3) {
            // five-digit line numbers: around the 9999 -> 10000 change of label width
            let want = [9990usize, 9997, 9998, 9999, 10000, 10001, 10002][rng.below(7)];
            let (s, e) = lines[want.min(lines.len() - 1)];
            return if rng.chance(1, 2) { s } else { e.saturating_sub(1).max(s) };
        }
        match rng.below(6) {
            0 if !lines.is_empty() => lines[rng.below(lines.len())].0,
            1 if !lines.is_empty() => lines[rng.below(lines.len())].1,
            2 => text.len(),
            3 if !lines.is_empty() => {
                // near a label-width change
                let want = [8usize, 9, 10, 98, 99, 100, 998, 999, 1000, 9998, 9999, 10000, 10001][rng.below(if lines.len() > 5000 { 13 } else { 9 })];
                lines[want.min(lines.len() - 1)].0
            }
            _ => bs[rng.below(bs.len())],
        }
    };
    let x = pick(rng);
    let y = pick(rng);
    let (a, b) = if x <= y { (x, y) } else { (y, x) };
    if rng.chance(1, 5) {
        Case { text: text.to_string(), a, b: a, is_pos: true }
    } else {
        Case { text: text.to_string(), a, b, is_pos: false }
    }
}

struct Budget {
    exhaustive_len: usize,
    exhaustive_all_faults_every: u64,
    sampled_short: u64,
    sampled_long: u64,
    sampled_huge: u64,
    sampled_wide: u64,
    sampled_faults: usize,
}

fn budget(tier: &str) -> Budget {
    match tier {
        "thorough" => Budget {
            exhaustive_len: 6,
            exhaustive_all_faults_every: 8,
            sampled_short: 400_000,
            sampled_long: 6_000,
            sampled_huge: 24,
            sampled_wide: 600,
            sampled_faults: 3,
        },
        _ => Budget {
            exhaustive_len: 4,
            exhaustive_all_faults_every: 4,
            sampled_short: 40_000,
            sampled_long: 500,
            sampled_huge: 4,
            sampled_wide: 60,
            sampled_faults: 3,
        },
    }
}

fn violation_json(v: &Violation) -> Value {
    json!({
        "property": "C14",
        "class": v.class,
        "detail": v.detail,
        "case": v.case.to_json(),
        "api": v.api.name(),
        "plan": v.plan.to_json(),
    })
}

fn violation_from_json(j: &Value) -> Option<(Case, Api, Plan, String)> {
    let case = Case::from_json(j.get("case")?)?;
    let api = Api::from_name(j.get("api")?.as_str()?)?;
    let plan = Plan::from_json(j.get("plan")?)?;
    let class = j.get("class")?.as_str()?.to_string();
    Some((case, api, plan, class))
}

/// All violation classes a (case, api, plan) triple produces.
fn classes_of(c: &Case, api: Api, plan: &Plan) -> Vec<(String, String)> {
    let ex = execute(c, api, plan);
    if plan.is_none() {
        model::judge_fault_free(c, api, &ex)
    } else {
        model::judge_faulted(&ex)
    }
}

/// Shrink a failing case while the same violation class persists.
fn minimise(v: &Violation) -> Violation {
    let mut best = v.clone();
    let has = |c: &Case, api: Api, plan: &Plan, class: &str| -> Option<String> {
        classes_of(c, api, plan).into_iter().find(|(k, _)| k == class).map(|(_, d)| d)
    };
    // a fault plan's indices refer to the fault-free call sequence of the case; when the text shrinks
    // the plan is re-targeted to the same relative position if the original index no longer exists.
    // 0. ddmin over blocks of characters (large texts): remove a block that does not straddle a span boundary
    {
        let mut block = best.case.text.chars().count() / 2;
        let mut budget = 4000usize;
        while block >= 1 && budget > 0 {
            let idx: Vec<usize> = best.case.text.char_indices().map(|(i, _)| i).chain([best.case.text.len()]).collect();
            let n = idx.len() - 1;
            let mut k = 0;
            let mut removed_any = false;
            while k + block <= n && budget > 0 {
                let (lo, hi) = (idx[k], idx[k + block]);
                let (a, b) = (best.case.a, best.case.b);
                let straddles = (lo < a && a < hi) || (lo < b && b < hi);
                if !straddles {
                    let mut t = best.case.text.clone();
                    t.replace_range(lo..hi, "");
                    let sh = |x: usize| if x >= hi { x - (hi - lo) } else { x };
                    let cand = Case { text: t, a: sh(a), b: sh(b), is_pos: best.case.is_pos };
                    budget -= 1;
                    if cand.valid() && cand.a <= cand.b {
                        if let Some(d) = has(&cand, best.api, &best.plan, &best.class) {
                            best.case = cand;
                            best.detail = d;
                            removed_any = true;
                            break; // indices changed: recompute
                        }
                    }
                }
                k += block;
            }
            if !removed_any {
                block /= 2;
            }
        }
    }
    let mut progress = true;
    let mut rounds = 0;
    while progress && rounds < 200 && best.case.text.chars().count() <= 400 {
        progress = false;
        rounds += 1;
        let chars: Vec<(usize, char)> = best.case.text.char_indices().collect();
        // 1. drop one character (offsets after it shift)
        for &(i, ch) in chars.iter() {
            let l = ch.len_utf8();
            let mut t = best.case.text.clone();
            t.replace_range(i..i + l, "");
            let sh = |x: usize| if x > i { x - l } else { x };
            let cand = Case { text: t, a: sh(best.case.a), b: sh(best.case.b), is_pos: best.case.is_pos };
            if cand.a > cand.b || !cand.valid() {
                continue;
            }
            if let Some(d) = has(&cand, best.api, &best.plan, &best.class) {
                best.case = cand;
                best.detail = d;
                progress = true;
                break;
            }
        }
        if progress {
            continue;
        }
        // 2. replace one character by 'a'
        for &(i, ch) in chars.iter() {
            if ch == 'a' {
                continue;
            }
            let l = ch.len_utf8();
            let mut t = best.case.text.clone();
            t.replace_range(i..i + l, "a");
            let sh = |x: usize| if x > i { x + 1 - l } else { x };
            let cand = Case { text: t, a: sh(best.case.a), b: sh(best.case.b), is_pos: best.case.is_pos };
            if cand.a > cand.b || !cand.valid() {
                continue;
            }
            if let Some(d) = has(&cand, best.api, &best.plan, &best.class) {
                best.case = cand;
                best.detail = d;
                progress = true;
                break;
            }
        }
        if progress {
            continue;
        }
        // 3. simplify the fault plan: non-sticky, fail-before-write, earlier index
        if !best.plan.is_none() {
            let mut cands = Vec::new();
            if best.plan.sticky {
                let mut p = best.plan.clone();
                p.sticky = false;
                cands.push(p);
            }
            if best.plan.cb_after_write {
                let mut p = best.plan.clone();
                p.cb_after_write = false;
                cands.push(p);
            }
            if best.plan.index > 1 {
                let mut p = best.plan.clone();
                p.index -= 1;
                cands.push(p);
            }
            for p in cands {
                if let Some(d) = has(&best.case, best.api, &p, &best.class) {
                    best.plan = p;
                    best.detail = d;
                    progress = true;
                    break;
                }
            }
        }
        if progress {
            continue;
        }
        // 4. simpler API
        if best.plan.is_none() && best.api != Api::ToString {
            if let Some(d) = has(&best.case, Api::ToString, &best.plan, &best.class) {
                best.api = Api::ToString;
                best.detail = d;
                progress = true;
            }
        }
    }
    best
}

fn cmd_run(args: &BTreeMap<String, String>) -> i32 {
    let seed: u64 = args.get("seed").and_then(|s| s.parse().ok()).unwrap_or(1);
    let tier = args.get("tier").cloned().unwrap_or_else(|| "quick".into());
    let threads: usize = args.get("threads").and_then(|s| s.parse().ok()).unwrap_or(16).max(1);
    let out = args.get("out").cloned().unwrap_or_else(|| "/dev/stdout".into());
    let b = budget(&tier);
    if let Err(e) = model::self_check_widths() {
        eprintln!("HARNESS-ERROR width table: {e}");
        return 2;
    }
    install_quiet_panic_hook();
    let t0 = Instant::now();
    let n_exh = count_strings(b.exhaustive_len);
    // work items: [0, n_exh) exhaustive strings; then sampled short; then sampled long
    let total_items = n_exh + b.sampled_short + b.sampled_long + b.sampled_huge + b.sampled_wide;
    let next = AtomicUsize::new(0);
    let global = Mutex::new(Stats::default());
    const CHUNK: usize = 2;
    std::thread::scope(|s| {
        for _ in 0..threads {
            s.spawn(|| {
                let mut st = Stats::default();
                loop {
                    let start = next.fetch_add(CHUNK, Ordering::Relaxed);
                    if start as u64 >= total_items {
                        break;
                    }
                    for item in start as u64..((start + CHUNK) as u64).min(total_items) {
                        // every item's randomness is a pure function of (seed, item): independent of thread count
                        let mut rng = SplitMix(mix(mix(seed, 0xC14), item));
                        if item < n_exh {
                            let text = nth_string(item, b.exhaustive_len).unwrap();
                            for (k, c) in all_cases_of(&text).into_iter().enumerate() {
                                let fm = if (item.wrapping_mul(31) + k as u64 + seed) % b.exhaustive_all_faults_every == 0 {
                                    FaultMode::All
                                } else {
                                    FaultMode::Sampled(b.sampled_faults)
                                };
                                run_case(&mut st, &c, item * 64 + k as u64, fm, &mut rng, true);
                            }
                        } else if item < n_exh + b.sampled_short {
                            let text = random_short(&mut rng, b.exhaustive_len + 1, 9);
                            let c = random_case_in(&mut rng, &text);
                            let fm = if rng.chance(1, 8) { FaultMode::All } else { FaultMode::Sampled(b.sampled_faults) };
                            run_case(&mut st, &c, item * 64, fm, &mut rng, false);
                        } else if item < n_exh + b.sampled_short + b.sampled_long {
                            let text = random_long(&mut rng);
                            for k in 0..4 {
                                let c = random_case_in(&mut rng, &text);
                                run_case(&mut st, &c, item * 64 + k, FaultMode::Sampled(1), &mut rng, false);
                            }
                        } else if item >= n_exh + b.sampled_short + b.sampled_long + b.sampled_huge {
                            let (text, start, near_end) = random_wide_line(&mut rng);
                            let bs: Vec<usize> = text.char_indices().map(|(i, _)| i).filter(|i| *i + 12 >= near_end || *i <= start + 2).chain([text.len()]).collect();
                            for k in 0..4 {
                                let x = bs[rng.below(bs.len())];
                                let y = bs[rng.below(bs.len())];
                                let (a, bb) = if x <= y { (x, y) } else { (y, x) };
                                let c = if k == 0 { Case { text: text.clone(), a: near_end, b: near_end, is_pos: true } } else { Case { text: text.clone(), a, b: bb, is_pos: false } };
                                run_case(&mut st, &c, item * 64 + k, FaultMode::Sampled(1), &mut rng, false);
                            }
                        } else {
                            let text = random_huge(&mut rng);
                            for k in 0..1 {
                                let c = random_case_in(&mut rng, &text);
                                run_case(&mut st, &c, item * 64 + k, FaultMode::Sampled(1), &mut rng, false);
                            }
                        }
                    }
                }
                global.lock().unwrap().merge(st);
            });
        }
    });
    let mut st = global.into_inner().unwrap();
    st.violations.sort_by(|x, y| (x.class.as_str(), x.order, x.api as u8).cmp(&(y.class.as_str(), y.order, y.api as u8)));
    // group violations by (class, location detail for panics) and minimise the first of each group
    let mut groups: BTreeMap<String, (u64, Violation)> = BTreeMap::new();
    for v in st.violations.iter() {
        let key = model::group_key(&v.class, &v.detail);
        groups.entry(key).and_modify(|e| e.0 += 1).or_insert((1, v.clone()));
    }
    let mut reported = Vec::new();
    for (key, (count, v)) in groups.iter() {
        let m = minimise(v);
        let mut j = violation_json(&m);
        j["group"] = json!(key);
        j["count"] = json!(count);
        j["original"] = violation_json(v);
        reported.push(j);
    }
    let distinct = st.nontrivial + st.sampled_hashes.len() as u64;
    // a handful of concrete samples
    let mut samples = Vec::new();
    {
        let mut rng = SplitMix(mix(seed, 77));
        for _ in 0..3 {
            let text = random_short(&mut rng, 0, 6);
            let c = random_case_in(&mut rng, &text);
            let ex = execute(&c, Api::Custom, &Plan::none());
            samples.push(json!({"case": c.to_json(), "api": "custom", "fault": "none", "outcome": ex.outcome.name(), "rendering": ex.out,
                "sink_calls": ex.sink_calls, "callback_calls": ex.cb_calls.to_vec()}));
            if ex.sink_calls > 0 {
                let p = Plan::sink(1 + rng.below(ex.sink_calls), false, ex.sink_calls);
                let fx = execute(&c, Api::Custom, &p);
                samples.push(json!({"case": c.to_json(), "api": "custom", "fault": p.to_json(), "outcome": fx.outcome.name(),
                    "written_before_fault": fx.out_before_first_error, "calls_after_first_error": fx.calls_after_first_error}));
            }
        }
    }
    let wall = t0.elapsed().as_secs_f64();
    let res = json!({
        "seed": seed, "tier": tier, "threads": threads, "wall_s": wall,
        "executions": st.executions, "fault_free_executions": st.fault_free, "faulted_executions": st.faulted,
        "cases": st.cases, "distinct_nontrivial": distinct,
        "exhaustive_max_len": b.exhaustive_len, "exhaustive_strings": n_exh,
        "sampled_short_cases": b.sampled_short, "sampled_long_texts": b.sampled_long, "sampled_huge_texts": b.sampled_huge, "sampled_wide_line_texts": b.sampled_wide,
        "faults_fired": {"sink_write_error": st.sink_faults_fired, "span_formatter_error": st.cb_faults_fired[0],
            "marker_formatter_error": st.cb_faults_fired[1], "number_formatter_error": st.cb_faults_fired[2],
            "sticky_plans": st.sticky_plans, "reentries_from_sink_or_callback": st.reentries},
        "under_fault": {"returned_err": st.err_returned_under_fault, "returned_ok_error_swallowed": st.ok_returned_under_fault,
            "calls_observed_after_first_error": st.calls_after_first_error, "prefix_mismatch_selfcheck": st.prefix_mismatch_under_fault},
        "api_text_mismatch_cases": st.api_text_mismatch,
        "probes": {"empty_input": st.p_empty_input, "offset_at_end_of_input": st.p_eoi, "start_at_line_start": st.p_line_start,
            "multi_line_span": st.p_multi_line, "span_over_5_lines": st.p_over5_lines, "wide_char": st.p_wide,
            "no_trailing_newline": st.p_no_trailing_nl, "label_width_ge_2": st.p_label_width_ge2, "label_width_ge_4": st.p_label_width_ge4, "label_width_ge_5": st.p_label_width_ge5, "texts_with_unmodelled_cells": st.p_exotic, "mark_beyond_65535_cells": st.p_mark_beyond_65535_cells,
            "max_lines_in_a_text": st.max_lines},
        "violation_count": st.violations.len(),
        "violations": reported,
        "samples": samples,
    });
    std::fs::write(&out, serde_json::to_string_pretty(&res).unwrap()).unwrap();
    0
}

fn cmd_replay(path: &str, show: bool) -> i32 {
    let txt = match std::fs::read_to_string(path) {
        Ok(t) => t,
        Err(e) => {
            eprintln!("HARNESS-ERROR cannot read {path}: {e}");
            return 2;
        }
    };
    let j: Value = match serde_json::from_str(&txt) {
        Ok(j) => j,
        Err(e) => {
            eprintln!("HARNESS-ERROR bad replay file: {e}");
            return 2;
        }
    };
    let Some((case, api, plan, class)) = violation_from_json(&j) else {
        eprintln!("HARNESS-ERROR bad replay file: missing fields");
        return 2;
    };
    if !case.valid() {
        eprintln!("HARNESS-ERROR replay case is not a valid span/position");
        return 2;
    }
    if let Err(e) = model::self_check_widths() {
        eprintln!("HARNESS-ERROR width table: {e}");
        return 2;
    }
    install_quiet_panic_hook();
    let ex = execute(&case, api, &plan);
    if show {
        println!("outcome={} sink_calls={} cb_calls={:?}", ex.outcome.name(), ex.sink_calls, ex.cb_calls);
        println!("--- rendering ---\n{}--- end ---", ex.out);
        for e in ex.events.iter() {
            println!("event {:?}", e);
        }
    }
    let found = classes_of(&case, api, &plan);
    for (k, d) in found.iter() {
        println!("class={k} detail={d}");
    }
    if found.iter().any(|(k, _)| *k == class) {
        println!("REPRODUCED {class}");
        1
    } else {
        println!("NOT-REPRODUCED {class}");
        0
    }
}

fn main() {
    let argv: Vec<String> = std::env::args().collect();
    if argv.len() < 2 {
        eprintln!("usage: fmtsim run|replay|show ...");
        std::process::exit(2);
    }
    let code = match argv[1].as_str() {
        "run" => {
            let mut m = BTreeMap::new();
            let mut i = 2;
            while i + 1 < argv.len() {
                m.insert(argv[i].trim_start_matches("--").to_string(), argv[i + 1].clone());
                i += 2;
            }
            cmd_run(&m)
        }
        "replay" => cmd_replay(&argv[2], false),
        "show" => cmd_replay(&argv[2], true),
        _ => 2,
    };
    std::process::exit(code);
}
