#!/bin/bash
# Sensitivity proof: every deliberate property-breaking change under mutants/<prop>/ (and seeded/<prop>-*/patch.diff)
# must (a) compile, (b) keep the repository's own test suite green, (c) make ./check <prop> exit 1 with a VIOLATION line.
# Works on a scratch worktree outside /repo and /verif; removes it and its build output afterwards.
# usage: tools/sensitivity.sh [--skip-suite] [patch files...]
cd "$(dirname "$0")/.."
VERIF=$(pwd)
SKIP_SUITE=0
if [ "$1" = "--skip-suite" ]; then SKIP_SUITE=1; shift; fi
PATCHES=("$@")
if [ ${#PATCHES[@]} -eq 0 ]; then
  PATCHES=( $(ls mutants/*/*.patch seeded/*/patch.diff 2>/dev/null) )
fi
pass=0; fail=0
for patch in "${PATCHES[@]}"; do
  patch=$(readlink -f "$patch")
  case "$patch" in
    */mutants/*) prop=$(basename "$(dirname "$patch")");;
    */seeded/*) prop=$(python3 -c "import json,sys; print(json.load(open(sys.argv[1]))['property'])" "$(dirname "$patch")/meta.json");;
  esac
  W=$(mktemp -d /tmp/sens-XXXXXX)
  rmdir "$W"
  git -C /repo worktree add --detach -q "$W" HEAD || { echo "worktree failed"; exit 2; }
  cp /repo/Cargo.lock "$W/" 2>/dev/null
  if ! git -C "$W" apply "$patch"; then echo "RESULT $patch: PATCH-DOES-NOT-APPLY"; fail=$((fail+1)); git -C /repo worktree remove --force "$W"; continue; fi
  suite="skipped"
  if [ $SKIP_SUITE -eq 0 ]; then
    if (cd "$W" && CARGO_NET_OFFLINE=true CARGO_TARGET_DIR="$W/target" cargo nextest run --workspace --no-fail-fast --offline >"$W/suite.log" 2>&1); then suite="green"; else suite="RED"; fi
  fi
  out=$(VERIF_REPO="$W" ./check "$prop" --tier quick 2>&1); rc=$?
  if [ $rc -eq 1 ] && echo "$out" | grep -q "^VIOLATION property=$prop"; then
    echo "RESULT $patch: DETECTED (suite $suite)"; echo "$out" | grep -A2 '^VIOLATION' | head -6; pass=$((pass+1))
  else
    echo "RESULT $patch: MISSED rc=$rc (suite $suite)"; echo "$out" | grep -v KNOWN-FINDING | tail -5; fail=$((fail+1))
  fi
  # remove the scratch copy together with every build output made for it
  h=$(python3 -c "import hashlib,sys; print(hashlib.sha256(sys.argv[1].encode()).hexdigest()[:12])" "$W")
  rm -rf "$VERIF/build/alt-$h"
  git -C /repo worktree remove --force "$W"
  rm -rf "$W"
done
git -C /repo worktree prune
echo "SENSITIVITY detected=$pass missed_or_broken=$fail"
[ $fail -eq 0 ]
