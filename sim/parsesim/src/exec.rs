//! Executes a scenario against the real parsers and evaluates the in-process invariants I2–I5.
//! Operations run on 1–3 real OS threads; exactly one runs at a time (baton), in the scenario's order.
use crate::scen::{Op, Scenario};
use crate::table::{Entry, Form, Grammar, Live, Obs, OpCtx, OpResult};
use serde_json::json;
use std::collections::BTreeMap;
use std::sync::mpsc;

pub fn fnv(s: &[u8], mut h: u64) -> u64 {
    for b in s {
        h ^= *b as u64;
        h = h.wrapping_mul(0x100000001b3);
    }
    h
}
pub const FNV0: u64 = 0xcbf29ce484222325;
/// Stack of every thread that executes operations, "thread 0" included (the whole executor runs on such a thread, see main.rs):
/// a reference process and a history must not differ in how deep a recursive grammar may recurse before the stack overflows.
pub const STACK_BYTES: usize = 1 << 30;

struct SlotRec {
    ptr: *mut String,
    gen: u64,
}

#[derive(Clone)]
struct ParseRec {
    slot: usize,
    gen: u64,
    g: String,
    rule: String,
    entry: Entry,
    form: Form,
    a: usize,
    b: usize,
    key: String,
}

struct LiveRec {
    slot: usize,
    gen: u64,
    /// type key: grammar/rule (results of different rules are different Rust types)
    tkey: String,
    res: Box<dyn Live>,
    inner: Option<Box<dyn Live>>,
    dbg: String,
    hash: u64,
    inner_dbg: Option<String>,
    inner_hash: Option<u64>,
    /// element 0 of the Debug rendering up to the first ", " (for the "agree on first element" probe)
    key: String,
}

#[derive(Default)]
pub struct Probes {
    pub address_reuse_after_drop: u64,
    pub push_leaving_before_peek: u64,
    pub failure_after_failure: u64,
    pub eq_true_pairs_between_different_ops: u64,
    pub eq_false_pairs_same_first_element: u64,
    pub pairs_compared: u64,
    pub inner_pairs_compared: u64,
    pub ops_on_other_threads: u64,
    pub successes: u64,
    pub failures: u64,
    pub skipped_ops: u64,
    pub reparse_checked: u64,
    pub refills: u64,
    pub clone_from_checked: u64,
    pub big_input_successes: u64,
    pub same_address_and_length_new_content: u64,
    pub clone_checked: u64,
    pub max_live_results: u64,
}

pub struct Report {
    pub lines: Vec<String>,
    pub violations: Vec<serde_json::Value>,
    pub probes: Probes,
}

pub fn op_key(g: &str, rule: &str, entry: Entry, form: Form, a: usize, b: usize, text: &str) -> String {
    format!("{g}|{rule}|{}|{}|{a}|{b}|{text}", entry.name(), form.name())
}

/// What must not change when generation options change: verdict, consumed offset, pair tree.
pub fn sem_hash(o: &Obs) -> u64 {
    let s = format!("{}|{:?}|{:?}", o.ok, o.offset, o.tokens);
    fnv(s.as_bytes(), FNV0)
}

pub fn obs_hash(o: &Obs) -> u64 {
    let s = format!("{:?}", o);
    fnv(s.as_bytes(), FNV0)
}

type Job = Box<dyn FnOnce() -> OpResult + Send>;

struct Workers {
    tx: Vec<mpsc::Sender<Job>>,
    rx: mpsc::Receiver<OpResult>,
}
impl Workers {
    fn new(n: usize) -> Workers {
        let (rtx, rrx) = mpsc::channel::<OpResult>();
        let mut tx = Vec::new();
        for _ in 1..n {
            let (jtx, jrx) = mpsc::channel::<Job>();
            let rtx = rtx.clone();
            // every thread that runs operations has the same (large) stack, see `STACK_BYTES`
            std::thread::Builder::new()
                .stack_size(STACK_BYTES)
                .spawn(move || {
                    while let Ok(job) = jrx.recv() {
                        let r = job();
                        if rtx.send(r).is_err() {
                            break;
                        }
                    }
                })
                .expect("spawn worker");
            tx.push(jtx);
        }
        Workers { tx, rx: rrx }
    }
    /// thread 0 is the main thread; thread t>0 gets the baton, runs the job, hands the baton back
    fn run(&self, thread: usize, job: Job) -> OpResult {
        if thread == 0 || thread > self.tx.len() {
            job()
        } else {
            self.tx[thread - 1].send(job).expect("worker alive");
            self.rx.recv().expect("worker result")
        }
    }
}

struct SendCtx(OpCtx, fn(&OpCtx) -> OpResult);
unsafe impl Send for SendCtx {}

fn first_element(dbg: &str) -> &str {
    // text up to the first top-level ", " after the opening "(" or "{": a cheap, deterministic cut
    let start = dbg.find(|c| c == '(' || c == '{').map(|i| i + 1).unwrap_or(0);
    let rest = &dbg[start..];
    match rest.find(", ") {
        Some(i) => &rest[..i],
        None => rest,
    }
}

pub fn execute(sc: &Scenario, grammars: &[Grammar], verbose: bool) -> Report {
    let mut lines = Vec::new();
    let mut violations = Vec::new();
    let mut probes = Probes::default();
    // heap pre-allocation: shifts every later address (kept alive until the end)
    let mut ballast: Vec<Vec<u8>> = Vec::new();
    for i in 0..sc.heap_pre.0 {
        ballast.push(vec![i as u8; sc.heap_pre.1]);
    }
    let workers = Workers::new(sc.threads.max(1));
    let mut slots: [Option<SlotRec>; 2] = [None, None];
    let mut gen_counter = 0u64;
    let mut pool: Vec<String> = Vec::new();
    let mut parses: BTreeMap<usize, ParseRec> = BTreeMap::new();
    let mut live: BTreeMap<usize, LiveRec> = BTreeMap::new();
    let mut prefix = FNV0;
    let mut nontrivial_context = false; // an earlier op used the stack, failed, or freed an input object
    let mut last_failed = false;
    let mut last_left_stack = false;

    let find = |g: &str, rule: &str| -> Option<fn(&OpCtx) -> OpResult> {
        grammars.iter().find(|x| x.name == g)?.entries.iter().find(|e| e.rule == rule).map(|e| e.run)
    };

    let mut viol = |class: &str, id: usize, detail: serde_json::Value, violations: &mut Vec<serde_json::Value>| {
        violations.push(json!({"class": class, "op": id, "detail": detail}));
    };

    for op in sc.ops.iter() {
        match op {
            Op::New { slot, text, reuse } => {
                if *slot >= 2 || slots[*slot].is_some() {
                    probes.skipped_ops += 1;
                    continue;
                }
                // freed buffers are owned by the simulator: whether a new input lands on a freed address is the
                // scenario's decision (replayable), not a property of malloc's internal state
                let pick = if *reuse { pool.iter().rposition(|b| b.capacity() >= text.len()) } else { None };
                let mut buf = match pick {
                    Some(i) => pool.remove(i),
                    None => String::with_capacity(text.len().max(8)),
                };
                let was_freed = pick.is_some();
                let old = (buf.as_ptr() as usize, buf.len());
                buf.clear();
                buf.push_str(text);
                if was_freed {
                    probes.address_reuse_after_drop += 1;
                    if (buf.as_ptr() as usize, buf.len()) == old {
                        probes.same_address_and_length_new_content += 1;
                    }
                }
                let boxed: Box<String> = Box::new(buf);
                gen_counter += 1;
                slots[*slot] = Some(SlotRec { ptr: Box::into_raw(boxed), gen: gen_counter });
                prefix = fnv(format!("new|{slot}|{text}").as_bytes(), prefix);
            }
            Op::DropInput { slot } => {
                if *slot >= 2 || slots[*slot].is_none() {
                    probes.skipped_ops += 1;
                    continue;
                }
                let rec = slots[*slot].take().unwrap();
                let ids: Vec<usize> = live.iter().filter(|(_, l)| l.slot == *slot && l.gen == rec.gen).map(|(k, _)| *k).collect();
                for k in ids {
                    live.remove(&k);
                }
                parses.retain(|_, p| !(p.slot == *slot && p.gen == rec.gen));
                // SAFETY: every result borrowing from this input has just been dropped
                let boxed = unsafe { Box::from_raw(rec.ptr) };
                // the buffer goes to the simulator's free list with its old content still in it, as freed memory would
                pool.push(*boxed);
                nontrivial_context = true;
                prefix = fnv(format!("drop_input|{slot}").as_bytes(), prefix);
            }
            Op::Refill { slot, text } => {
                if *slot >= 2 || slots[*slot].is_none() {
                    probes.skipped_ops += 1;
                    continue;
                }
                let old_gen = slots[*slot].as_ref().unwrap().gen;
                let ids: Vec<usize> = live.iter().filter(|(_, l)| l.slot == *slot && l.gen == old_gen).map(|(k, _)| *k).collect();
                for k in ids {
                    live.remove(&k);
                }
                parses.retain(|_, p| !(p.slot == *slot && p.gen == old_gen));
                gen_counter += 1;
                let rec = slots[*slot].as_mut().unwrap();
                rec.gen = gen_counter;
                // SAFETY: nothing borrows from the String any more
                let st: &mut String = unsafe { &mut *rec.ptr };
                let before = (st.as_ptr() as usize, st.len());
                st.clear();
                st.push_str(text);
                if (st.as_ptr() as usize, st.len()) == before {
                    probes.same_address_and_length_new_content += 1;
                }
                probes.refills += 1;
                nontrivial_context = true;
                prefix = fnv(format!("refill|{slot}|{text}").as_bytes(), prefix);
            }
            Op::Parse { .. } | Op::Reparse { .. } => {
                let (id, rec, thread, reparse_of) = match op {
                    Op::Parse { id, slot, g, rule, entry, form, a, b, thread } => {
                        let Some(s) = slots.get(*slot).and_then(|s| s.as_ref()) else {
                            probes.skipped_ops += 1;
                            continue;
                        };
                        let text: &str = unsafe { &*s.ptr }.as_str();
                        if !(a <= b && *b <= text.len() && text.is_char_boundary(*a) && text.is_char_boundary(*b)) {
                            probes.skipped_ops += 1;
                            continue;
                        }
                        let (a, b) = match form {
                            Form::Str | Form::String => (0, text.len()),
                            Form::Pos => (*a, text.len()),
                            Form::Span => (*a, *b),
                        };
                        let key = op_key(g, rule, *entry, *form, a, b, text);
                        (*id, ParseRec { slot: *slot, gen: s.gen, g: g.clone(), rule: rule.clone(), entry: *entry, form: *form, a, b, key }, *thread, None)
                    }
                    Op::Reparse { id, of, thread } => {
                        let Some(p) = parses.get(of) else {
                            probes.skipped_ops += 1;
                            continue;
                        };
                        (*id, p.clone(), *thread, Some(*of))
                    }
                    _ => unreachable!(),
                };
                let Some(run) = find(&rec.g, &rec.rule) else {
                    probes.skipped_ops += 1;
                    continue;
                };
                let s = slots[rec.slot].as_ref().unwrap();
                // SAFETY: the String lives until DropInput, which first drops everything borrowing from it
                let string: &'static String = unsafe { &*s.ptr };
                let ctx = SendCtx(OpCtx { text: string.as_str(), string, entry: rec.entry, form: rec.form, a: rec.a, b: rec.b }, run);
                if thread != 0 && thread < sc.threads {
                    probes.ops_on_other_threads += 1;
                }
                // a panic inside the code under test is an observation of the operation, not a harness failure
                let r = workers.run(thread, Box::new(move || {
                    let c = ctx;
                    match std::panic::catch_unwind(std::panic::AssertUnwindSafe(|| (c.1)(&c.0))) {
                        Ok(r) => r,
                        Err(_) => OpResult {
                            obs: Obs { ok: false, offset: None, debug: None, tokens: None, err: Some(format!("PANIC {}", crate::take_panic_message())) },
                            result: None,
                            inner: None,
                        },
                    }
                }));
                let nontrivial = nontrivial_context;
                let kh = fnv(rec.key.as_bytes(), FNV0);
                let oh = obs_hash(&r.obs);
                let _ = kh;
                lines.push(format!("OP {id} {oh:016x} {:016x} {} {prefix:016x} {} {}", sem_hash(&r.obs), r.obs.ok as u8, nontrivial as u8, serde_json::Value::String(rec.key.clone())));
                if verbose {
                    lines.push(format!("OBS {id} {}", json!({"key": rec.key, "ok": r.obs.ok, "offset": r.obs.offset, "debug": r.obs.debug, "tokens": r.obs.tokens, "err": r.obs.err})));
                }
                // probes
                let is_stack = rec.g == "stack";
                let leaves = is_stack && matches!(rec.rule.as_str(), "p" | "p2" | "pw" | "sp" | "fail1" | "alt" | "opt");
                let peeks = is_stack && matches!(rec.rule.as_str(), "q" | "q2" | "q3" | "q4" | "q5" | "dr" | "pa" | "sq");
                if last_left_stack && peeks {
                    probes.push_leaving_before_peek += 1;
                }
                if last_failed && !r.obs.ok {
                    probes.failure_after_failure += 1;
                }
                if r.obs.ok {
                    probes.successes += 1;
                    if string.len() >= 4096 && rec.b - rec.a >= 4096 {
                        probes.big_input_successes += 1;
                    }
                } else {
                    probes.failures += 1;
                }
                last_left_stack = leaves;
                last_failed = !r.obs.ok;
                if is_stack || !r.obs.ok {
                    nontrivial_context = true;
                }
                prefix = fnv(rec.key.as_bytes(), prefix);
                let tkey = format!("{}/{}", rec.g, rec.rule);
                if let Some(res) = r.result {
                    let dbg = res.debug();
                    let hash = res.hash64();
                    let inner_dbg = r.inner.as_ref().map(|i| i.debug());
                    let inner_hash = r.inner.as_ref().map(|i| i.hash64());
                    let new = LiveRec { slot: rec.slot, gen: rec.gen, tkey, res, inner: r.inner, dbg, hash, inner_dbg, inner_hash, key: rec.key.clone() };
                    // I2: repeating the operation on the same object
                    if let Some(of) = reparse_of {
                        if let Some(orig) = live.get(&of) {
                            probes.reparse_checked += 1;
                            if orig.res.eq_dyn(new.res.as_ref()) != Some(true) || new.res.eq_dyn(orig.res.as_ref()) != Some(true) {
                                viol("reparse-unequal", id, json!({"key": rec.key, "first": orig.dbg, "second": new.dbg}), &mut violations);
                            }
                            if orig.hash != new.hash {
                                viol("reparse-hash-differs", id, json!({"key": rec.key, "first": orig.dbg, "second": new.dbg}), &mut violations);
                            }
                        }
                    }
                    check_pairs(&new, id, &live, &mut violations, &mut probes);
                    live.insert(id, new);
                    probes.max_live_results = probes.max_live_results.max(live.len() as u64);
                }
                parses.insert(id, rec);
            }
            Op::CloneOf { id, of } => {
                let Some(orig) = live.get(of) else {
                    probes.skipped_ops += 1;
                    continue;
                };
                probes.clone_checked += 1;
                let c = orig.res.clone_box();
                let ci = orig.inner.as_ref().map(|i| i.clone_box());
                let dbg = c.debug();
                let hash = c.hash64();
                if c.eq_dyn(orig.res.as_ref()) != Some(true) || orig.res.eq_dyn(c.as_ref()) != Some(true) {
                    viol("clone-unequal", *id, json!({"key": orig.key, "original": orig.dbg, "clone": dbg}), &mut violations);
                }
                if hash != orig.hash {
                    viol("clone-hash-differs", *id, json!({"key": orig.key, "original": orig.dbg}), &mut violations);
                }
                if dbg != orig.dbg {
                    viol("clone-debug-differs", *id, json!({"key": orig.key, "original": orig.dbg, "clone": dbg}), &mut violations);
                }
                let new = LiveRec {
                    slot: orig.slot,
                    gen: orig.gen,
                    tkey: orig.tkey.clone(),
                    inner_dbg: ci.as_ref().map(|i| i.debug()),
                    inner_hash: ci.as_ref().map(|i| i.hash64()),
                    res: c,
                    inner: ci,
                    dbg,
                    hash,
                    key: orig.key.clone(),
                };
                check_pairs(&new, *id, &live, &mut violations, &mut probes);
                prefix = fnv(format!("clone|{}", new.key).as_bytes(), prefix);
                live.insert(*id, new);
            }
            Op::DropResult { of } => {
                if live.remove(of).is_none() {
                    probes.skipped_ops += 1;
                }
            }
        }
    }
    // orderly teardown: results before inputs
    live.clear();
    for s in slots.iter_mut() {
        if let Some(rec) = s.take() {
            drop(unsafe { Box::from_raw(rec.ptr) });
        }
    }
    drop(ballast);
    Report { lines, violations, probes }
}

/// I4 / I5 over the new result and every live result of the same type from the same input object.
fn check_pairs(new: &LiveRec, id: usize, live: &BTreeMap<usize, LiveRec>, violations: &mut Vec<serde_json::Value>, probes: &mut Probes) {
    // results of very large inputs have renderings of megabytes: they are compared with at most two partners
    let mut big_budget = 2usize;
    for (oid, other) in live.iter() {
        if other.tkey != new.tkey || other.slot != new.slot || other.gen != new.gen {
            continue;
        }
        if new.dbg.len() > 100_000 || other.dbg.len() > 100_000 {
            if big_budget == 0 {
                continue;
            }
            big_budget -= 1;
        }
        probes.pairs_compared += 1;
        let e1 = new.res.eq_dyn(other.res.as_ref());
        let e2 = other.res.eq_dyn(new.res.as_ref());
        let (Some(e1), Some(e2)) = (e1, e2) else { continue };
        let same = new.dbg == other.dbg;
        let ctx = || json!({"type": new.tkey, "this_op": new.key, "other_op": other.key, "other_id": oid, "this": new.dbg, "other": other.dbg});
        if e1 != e2 {
            violations.push(json!({"class": "eq-asymmetric", "op": id, "detail": ctx()}));
        }
        if e1 && !same {
            violations.push(json!({"class": "eq-true-but-structurally-different", "op": id, "detail": ctx()}));
        }
        if !e1 && same {
            violations.push(json!({"class": "eq-false-but-structurally-identical", "op": id, "detail": ctx()}));
        }
        if e1 && new.hash != other.hash {
            violations.push(json!({"class": "eq-but-hash-differs", "op": id, "detail": ctx()}));
        }
        if e1 && new.key != other.key {
            probes.eq_true_pairs_between_different_ops += 1;
        }
        if !e1 && first_element(&new.dbg) == first_element(&other.dbg) {
            probes.eq_false_pairs_same_first_element += 1;
        }
        // I3 for `clone_from`: overwriting one value with another must give a value equal to the source
        for (dst, src, src_dbg, src_hash) in [(&new.res, &other.res, &other.dbg, other.hash), (&other.res, &new.res, &new.dbg, new.hash)] {
            if let Some(r) = dst.clone_from_box(src.as_ref()) {
                probes.clone_from_checked += 1;
                if r.eq_dyn(src.as_ref()) != Some(true) || r.debug() != *src_dbg || r.hash64() != src_hash {
                    violations.push(json!({"class": "clone-from-differs", "op": id, "detail": {"type": new.tkey, "this_op": new.key, "other_op": other.key, "source": src_dbg, "result": r.debug()}}));
                }
            }
        }
        if let (Some(a), Some(b)) = (new.inner.as_ref(), other.inner.as_ref()) {
            for (dst, src, src_dbg, src_hash) in [(a, b, &other.inner_dbg, other.inner_hash), (b, a, &new.inner_dbg, new.inner_hash)] {
                if let Some(r) = dst.clone_from_box(src.as_ref()) {
                    probes.clone_from_checked += 1;
                    if r.eq_dyn(src.as_ref()) != Some(true) || Some(r.debug()) != *src_dbg || Some(r.hash64()) != src_hash {
                        violations.push(json!({"class": "clone-from-differs", "op": id, "detail": {"type": format!("{}#inner", new.tkey), "this_op": new.key, "other_op": other.key, "source": src_dbg, "result": r.debug()}}));
                    }
                }
            }
        }
        // the same for the inner content (`RuleStruct::ref_inner`)
        if let (Some(a), Some(b)) = (new.inner.as_ref(), other.inner.as_ref()) {
            probes.inner_pairs_compared += 1;
            let i1 = a.eq_dyn(b.as_ref());
            let i2 = b.eq_dyn(a.as_ref());
            let (Some(i1), Some(i2)) = (i1, i2) else { continue };
            let isame = new.inner_dbg == other.inner_dbg;
            let ictx = || json!({"type": format!("{}#inner", new.tkey), "this_op": new.key, "other_op": other.key, "other_id": oid, "this": new.inner_dbg, "other": other.inner_dbg});
            if i1 != i2 {
                violations.push(json!({"class": "eq-asymmetric", "op": id, "detail": ictx()}));
            }
            if i1 && !isame {
                violations.push(json!({"class": "eq-true-but-structurally-different", "op": id, "detail": ictx()}));
            }
            if !i1 && isame {
                violations.push(json!({"class": "eq-false-but-structurally-identical", "op": id, "detail": ictx()}));
            }
            if i1 && new.inner_hash != other.inner_hash {
                violations.push(json!({"class": "eq-but-hash-differs", "op": id, "detail": ictx()}));
            }
            if !i1 && first_element(new.inner_dbg.as_deref().unwrap_or("")) == first_element(other.inner_dbg.as_deref().unwrap_or("")) {
                probes.eq_false_pairs_same_first_element += 1;
            }
        }
    }
}
