//! Type-erased access to the derive-generated parsers: entry points, observations, live results.
use pest_typed::{Input, ParsableTypedNode, Position, RuleType, Span};
use std::any::Any;
use std::collections::hash_map::DefaultHasher;
use std::fmt::Debug;
use std::hash::{Hash, Hasher};

#[derive(Clone, Copy, Debug, PartialEq, Eq)]
pub enum Entry {
    Parse,
    ParsePartial,
    Check,
    CheckPartial,
}
impl Entry {
    pub const ALL: [Entry; 4] = [Entry::Parse, Entry::ParsePartial, Entry::Check, Entry::CheckPartial];
    pub fn name(&self) -> &'static str {
        match self {
            Entry::Parse => "try_parse",
            Entry::ParsePartial => "try_parse_partial",
            Entry::Check => "try_check",
            Entry::CheckPartial => "try_check_partial",
        }
    }
    pub fn from_name(s: &str) -> Option<Entry> {
        Entry::ALL.into_iter().find(|e| e.name() == s)
    }
}

#[derive(Clone, Copy, Debug, PartialEq, Eq)]
pub enum Form {
    /// `&str` (whole input)
    Str,
    /// `&String` (whole input)
    String,
    /// `Position(s, a)`
    Pos,
    /// `Span(s, a, b)`
    Span,
}
impl Form {
    pub fn name(&self) -> &'static str {
        match self {
            Form::Str => "str",
            Form::String => "string",
            Form::Pos => "position",
            Form::Span => "span",
        }
    }
    pub fn from_name(s: &str) -> Option<Form> {
        [Form::Str, Form::String, Form::Pos, Form::Span].into_iter().find(|e| e.name() == s)
    }
}

pub struct OpCtx {
    pub text: &'static str,
    pub string: &'static String,
    pub entry: Entry,
    pub form: Form,
    pub a: usize,
    pub b: usize,
}

/// What one entry call showed, as owned strings: no addresses, no hash values.
#[derive(Clone, Debug, Default, PartialEq, Eq)]
pub struct Obs {
    pub ok: bool,
    pub offset: Option<usize>,
    pub debug: Option<String>,
    pub tokens: Option<String>,
    pub err: Option<String>,
}

pub trait Live: Send {
    fn eq_dyn(&self, o: &dyn Live) -> Option<bool>;
    fn hash64(&self) -> u64;
    fn debug(&self) -> String;
    fn clone_box(&self) -> Box<dyn Live>;
    /// `self.clone_from(other)` on a copy of self: -> the resulting value, or None if `other` is of another type
    fn clone_from_box(&self, other: &dyn Live) -> Option<Box<dyn Live>>;
    fn as_any(&self) -> &dyn Any;
}
pub struct LiveT<T>(pub T);
// Results only ever move between threads while exactly one thread runs (baton); the wrapper exists so
// that the harness does not depend on the generated types being `Send`.
unsafe impl<T> Send for LiveT<T> {}
impl<T: Clone + Eq + Hash + Debug + 'static> Live for LiveT<T> {
    fn eq_dyn(&self, o: &dyn Live) -> Option<bool> {
        o.as_any().downcast_ref::<LiveT<T>>().map(|x| self.0 == x.0)
    }
    fn hash64(&self) -> u64 {
        let mut h = DefaultHasher::new();
        self.0.hash(&mut h);
        h.finish()
    }
    fn debug(&self) -> String {
        format!("{:?}", self.0)
    }
    fn clone_box(&self) -> Box<dyn Live> {
        Box::new(LiveT(self.0.clone()))
    }
    fn clone_from_box(&self, other: &dyn Live) -> Option<Box<dyn Live>> {
        let o = other.as_any().downcast_ref::<LiveT<T>>()?;
        let mut dst = self.0.clone();
        dst.clone_from(&o.0);
        Some(Box::new(LiveT(dst)))
    }
    fn as_any(&self) -> &dyn Any {
        self
    }
}

pub struct OpResult {
    pub obs: Obs,
    pub result: Option<Box<dyn Live>>,
    pub inner: Option<Box<dyn Live>>,
}

#[derive(Clone, Copy, Debug, PartialEq, Eq)]
pub enum Kind {
    Silent,
    Atomic,
    Full,
}

pub struct RuleEntry {
    pub g: &'static str,
    pub rule: &'static str,
    pub kind: Kind,
    /// reaches `e+` / counted repetition under implicit skipping (see build.rs)
    pub rep_skip: bool,
    pub run: fn(&OpCtx) -> OpResult,
}

pub struct Grammar {
    pub name: &'static str,
    pub entries: Vec<RuleEntry>,
    /// (rule hint or "*junk", text)
    pub seeds: Vec<(String, String)>,
    /// the grammar's own string literals
    pub literals: &'static [&'static str],
}

pub fn parse_seeds(s: &str) -> Vec<(String, String)> {
    let mut v = Vec::new();
    for line in s.lines() {
        if line.is_empty() {
            continue;
        }
        let (rule, text) = match line.split_once('\t') {
            Some(x) => x,
            None => (line, ""),
        };
        let mut out = String::new();
        let mut it = text.chars();
        while let Some(c) = it.next() {
            if c == '\\' {
                match it.next() {
                    Some('n') => out.push('\n'),
                    Some('r') => out.push('\r'),
                    Some('t') => out.push('\t'),
                    Some('\\') => out.push('\\'),
                    Some(o) => {
                        out.push('\\');
                        out.push(o)
                    }
                    None => out.push('\\'),
                }
            } else {
                out.push(c);
            }
        }
        v.push((rule.to_string(), out));
    }
    v
}

/// The sixteen (entry, form) combinations of the public API for one rule type.
pub fn call<R: RuleType, T>(ctx: &OpCtx) -> Result<(Option<usize>, Option<T>), String>
where
    T: ParsableTypedNode<'static, R>,
{
    fn err<R: RuleType>(e: Box<pest_typed::error::Error<R>>) -> String {
        format!("{}\n{:?}", e, e)
    }
    macro_rules! go {
        ($input:expr) => {
            match ctx.entry {
                Entry::Parse => T::try_parse($input).map(|t| (None, Some(t))).map_err(err),
                Entry::ParsePartial => T::try_parse_partial($input).map(|(rest, t)| (Some(rest.byte_offset()), Some(t))).map_err(err),
                Entry::Check => T::try_check($input).map(|()| (None, None)).map_err(err),
                Entry::CheckPartial => T::try_check_partial($input).map(|rest| (Some(rest.byte_offset()), None)).map_err(err),
            }
        };
    }
    match ctx.form {
        Form::Str => go!(ctx.text),
        Form::String => go!(ctx.string),
        Form::Pos => go!(Position::new(ctx.text, ctx.a).expect("valid position")),
        Form::Span => go!(Span::new(ctx.text, ctx.a, ctx.b).expect("valid span")),
    }
}

pub fn finish<T: Clone + Eq + Hash + Debug + 'static>(
    r: Result<(Option<usize>, Option<T>), String>,
    tokens: impl Fn(&T) -> Option<String>,
    inner: impl Fn(&T) -> Option<Box<dyn Live>>,
) -> OpResult {
    match r {
        Ok((offset, t)) => {
            let (debug, toks, inn) = match &t {
                Some(t) => (Some(format!("{:?}", t)), tokens(t), inner(t)),
                None => (None, None, None),
            };
            OpResult {
                obs: Obs { ok: true, offset, debug, tokens: toks, err: None },
                result: t.map(|t| Box::new(LiveT(t)) as Box<dyn Live>),
                inner: inn,
            }
        }
        Err(e) => OpResult { obs: Obs { ok: false, offset: None, debug: None, tokens: None, err: Some(e) }, result: None, inner: None },
    }
}

#[macro_export]
macro_rules! entry_silent {
    ($g:expr, $name:expr, $q:expr, $Rule:ty, $($T:tt)+) => {
        $crate::table::RuleEntry {
            g: $g,
            rule: $name,
            rep_skip: $q,
            kind: $crate::table::Kind::Silent,
            run: |ctx| {
                use pest_typed::RuleStruct;
                use pest_typed::iterators::Pairs;
                $crate::table::finish(
                    $crate::table::call::<$Rule, $($T)+<'static>>(ctx),
                    // a silent rule is transparent: its token list is what it contributes to the pair tree
                    |t| Some(format!("{:?}", t.self_or_children().iter().map(|x| x.to_thin()).collect::<Vec<_>>())),
                    |t| Some(Box::new($crate::table::LiveT(t.ref_inner().clone())) as Box<dyn $crate::table::Live>),
                )
            },
        }
    };
}
#[macro_export]
macro_rules! entry_atomic {
    ($g:expr, $name:expr, $q:expr, $Rule:ty, $($T:tt)+) => {
        $crate::table::RuleEntry {
            g: $g,
            rule: $name,
            rep_skip: $q,
            kind: $crate::table::Kind::Atomic,
            run: |ctx| {
                use pest_typed::iterators::Pair;
                $crate::table::finish($crate::table::call::<$Rule, $($T)+<'static>>(ctx), |t| Some(format!("{:?}", t.as_thin_token())), |_t| None)
            },
        }
    };
}
#[macro_export]
macro_rules! entry_full {
    ($g:expr, $name:expr, $q:expr, $Rule:ty, $($T:tt)+) => {
        $crate::table::RuleEntry {
            g: $g,
            rule: $name,
            rep_skip: $q,
            kind: $crate::table::Kind::Full,
            run: |ctx| {
                use pest_typed::iterators::Pair;
                use pest_typed::RuleStruct;
                $crate::table::finish(
                    $crate::table::call::<$Rule, $($T)+<'static>>(ctx),
                    |t| Some(format!("{:?}", t.as_thin_token())),
                    |t| Some(Box::new($crate::table::LiveT(t.ref_inner().clone())) as Box<dyn $crate::table::Live>),
                )
            },
        }
    };
}
