//! Reference model of the *text of property C14* (not of the implementation) and the two oracles.
//!
//! Lines are the maximal pieces ending in LF (the last one may lack it). A numbered row must carry
//! the picture-text of the line with that number. The first / last numbered rows are the lines holding
//! the first / last character of the span (empty span or Position: the line holding the offset; at end
//! of input: the last line). Markers start inside the display cells of the character they point at.
//! Glyphs, elision rows and spacing are not judged.
use crate::sim::{Api, Case, Exec, Outcome};
use unicode_width::{UnicodeWidthChar, UnicodeWidthStr};

pub fn lines(text: &str) -> Vec<(usize, usize)> {
    let mut v = Vec::new();
    let mut start = 0;
    for (i, b) in text.bytes().enumerate() {
        if b == b'\n' {
            v.push((start, i + 1));
            start = i + 1;
        }
    }
    if start < text.len() {
        v.push((start, text.len()));
    }
    v
}

/// Index of the line holding byte offset `x`; the last line when `x` is the end of input.
/// Must not be called on the empty string.
pub fn line_of_offset(text: &str, x: usize) -> usize {
    let ls = lines(text);
    for (i, (s, e)) in ls.iter().enumerate() {
        if *s <= x && x < *e {
            return i;
        }
    }
    ls.len() - 1
}

pub fn vis_char(c: char) -> char {
    match c as u32 {
        n @ 0..=0x1f => char::from_u32(0x2400 + n).unwrap(),
        0x7f => '\u{2421}',
        _ => c,
    }
}
pub fn vis(s: &str) -> String {
    s.chars().map(vis_char).collect()
}

/// Display cells of a (visualised) character: the oracle's own table for the alphabet in use.
pub fn w_char(c: char) -> usize {
    match c {
        '中' | '字' | '😀' => 2,
        _ => 1,
    }
}
pub fn w_str(s: &str) -> usize {
    s.chars().map(w_char).sum()
}

/// The oracle's width table must agree with both width notions of `unicode-width` on everything the
/// generators can emit, otherwise column judgements would depend on an implementation choice.
pub fn self_check_widths() -> Result<(), String> {
    let mut all: Vec<char> = vec!['a', 'ß', '中', ' ', '|', '^', 'v', '.', '1', '字', '😀', '∆', 'Z', '\u{2421}'];
    all.extend((0x2400u32..=0x241f).filter_map(char::from_u32));
    for c in all {
        let mine = w_char(c);
        let s = c.to_string();
        let w1 = UnicodeWidthChar::width(c).unwrap_or(0);
        let w2 = UnicodeWidthChar::width_cjk(c).unwrap_or(0);
        let w3 = UnicodeWidthStr::width(s.as_str());
        let w4 = UnicodeWidthStr::width_cjk(s.as_str());
        if [w1, w2, w3, w4].iter().any(|w| *w != mine) {
            return Err(format!("char {c:?}: table {mine}, unicode-width {w1}/{w2}/{w3}/{w4}"));
        }
    }
    Ok(())
}

#[derive(Debug)]
struct Row {
    label: Option<usize>,
    /// text after the bar and one separating space
    text: String,
    /// display column (cells) at which `text` starts
    text_col: usize,
    has_bar: bool,
}
#[derive(Debug)]
struct Marker {
    row: usize,
    /// absolute display column at which the marker starts
    abs: isize,
    width: usize,
}

fn parse_rows_from_text(out: &str) -> Vec<Row> {
    let mut rows = Vec::new();
    let mut pieces: Vec<&str> = out.split('\n').collect();
    if pieces.last() == Some(&"") {
        pieces.pop();
    }
    for r in pieces {
        match r.find('|') {
            Some(i) => {
                let before = r[..i].trim();
                let label = if !before.is_empty() && before.bytes().all(|b| b.is_ascii_digit()) { before.parse().ok() } else { None };
                let mut rest = &r[i + 1..];
                let mut col = w_str(&r[..i + 1]);
                if rest.starts_with(' ') {
                    rest = &rest[1..];
                    col += 1;
                }
                rows.push(Row { label, text: rest.to_string(), text_col: col, has_bar: true });
            }
            None => rows.push(Row { label: None, text: r.to_string(), text_col: 0, has_bar: false }),
        }
    }
    rows
}

/// Markers from the text alone (default option): non-space runs in unlabelled rows before the first
/// and after the last labelled row.
fn markers_from_text(rows: &[Row]) -> Vec<Marker> {
    let first = rows.iter().position(|r| r.label.is_some());
    let last = rows.iter().rposition(|r| r.label.is_some());
    let mut v = Vec::new();
    for (i, r) in rows.iter().enumerate() {
        if r.label.is_some() || !r.has_bar {
            continue;
        }
        let outside = match (first, last) {
            (Some(f), Some(l)) => i < f || i > l,
            _ => true,
        };
        if !outside {
            continue;
        }
        let trimmed = r.text.trim_start_matches(' ');
        if trimmed.is_empty() {
            continue;
        }
        let lead = r.text.len() - trimmed.len();
        v.push(Marker { row: i, abs: (r.text_col + lead) as isize, width: w_str(trimmed.trim_end_matches(' ')) });
    }
    v
}

/// Markers from the recorded marker-callback calls (custom option); empty marker strings are dropped.
fn markers_from_events(ex: &Exec, rows: &[Row]) -> Vec<Marker> {
    let mut v = Vec::new();
    for e in ex.events.iter().filter(|e| e.channel == 1) {
        if e.text.is_empty() || e.row >= rows.len() {
            continue;
        }
        let row_start = ex.out[..e.out_len].rfind('\n').map(|i| i + 1).unwrap_or(0);
        let abs = w_str(&ex.out[row_start..e.out_len]);
        v.push(Marker { row: e.row, abs: abs as isize, width: w_str(&e.text) });
    }
    v
}

/// cells [lo, hi) occupied by the character starting at byte `x` of the input, inside its line
fn cells_of(text: &str, x: usize) -> (isize, isize) {
    let ls = lines(text);
    let li = line_of_offset(text, x);
    let (s, _) = ls[li];
    let before = w_str(&vis(&text[s..x]));
    let ch = text[x..].chars().next().unwrap();
    (before as isize, (before + w_char(vis_char(ch))) as isize)
}

pub fn judge_fault_free(c: &Case, api: Api, ex: &Exec) -> Vec<(String, String)> {
    let mut v = Vec::new();
    match &ex.outcome {
        Outcome::Panic(m) => {
            v.push(("panic".to_string(), m.clone()));
            return v;
        }
        Outcome::Cap => {
            v.push(("no-return".to_string(), "step cap exceeded without any fault".to_string()));
            return v;
        }
        Outcome::Err => {
            // An Err with an infallible sink and infallible callbacks: through `to_string()` this is a
            // panic in std ("a Display implementation returned an error unexpectedly").
            v.push(("err-without-fault".to_string(), "display returned Err although nothing failed".to_string()));
            return v;
        }
        Outcome::Ok => {}
    }
    let text = c.text.as_str();
    let ls = lines(text);
    if api == Api::Decor {
        return judge_decor(c, ex);
    }
    if api == Api::Flags {
        return v; // layout under width/fill/precision flags is not specified; only "returns Ok, no panic" (judged above)
    }
    let rows = parse_rows_from_text(&ex.out);
    let labelled: Vec<(usize, usize)> = rows.iter().enumerate().filter_map(|(i, r)| r.label.map(|n| (i, n))).collect();
    if ls.is_empty() {
        // empty input: nothing but "returns without panicking" is stated; if a numbered row is shown it
        // can only be line 1 with no text
        for (i, n) in labelled.iter() {
            if *n != 1 || !rows[*i].text.is_empty() {
                v.push(("label-text-mismatch".to_string(), format!("empty input but row {:?}", rows[*i])));
            }
        }
        return v;
    }
    for (i, n) in labelled.iter() {
        if *n < 1 || *n > ls.len() {
            v.push(("label-out-of-range".to_string(), format!("label {n} of {} lines", ls.len())));
            continue;
        }
        let (s, e) = ls[*n - 1];
        let want = vis(&text[s..e]);
        if rows[*i].text != want {
            v.push(("label-text-mismatch".to_string(), format!("row labelled {n} shows {:?}, line {n} is {:?}", rows[*i].text, want)));
        }
    }
    for w in labelled.windows(2) {
        if w[1].1 <= w[0].1 {
            v.push(("label-not-increasing".to_string(), format!("{} then {}", w[0].1, w[1].1)));
        }
    }
    if labelled.is_empty() {
        v.push(("no-numbered-line".to_string(), format!("rendering {:?}", ex.out)));
        return v;
    }
    let nonempty = c.b > c.a;
    let first = line_of_offset(text, c.a);
    let last = if nonempty { line_of_offset(text, c.b - 1) } else { first };
    // Signature of one specific, recorded defect (known_findings.json): the offset sits directly after
    // a LF (not at end of input) and the row shown is exactly the previous line.
    let at_line_start = c.a > 0 && c.a < text.len() && text.as_bytes()[c.a - 1] == b'\n';
    let sig = |got: usize, want: usize| if at_line_start && got + 1 == want { "@line-start" } else { "" };
    if labelled[0].1 != first + 1 {
        v.push((format!("first-line-wrong{}", sig(labelled[0].1, first + 1)), format!("first numbered row is {}, first character is on line {}", labelled[0].1, first + 1)));
    }
    if labelled[labelled.len() - 1].1 != last + 1 {
        let got = labelled[labelled.len() - 1].1;
        v.push((format!("last-line-wrong{}", if nonempty { "" } else { sig(got, last + 1) }), format!("last numbered row is {}, last character is on line {}", labelled[labelled.len() - 1].1, last + 1)));
    }
    if !v.is_empty() {
        return v; // marker columns are only meaningful once the rows are right
    }
    if !cells_are_modelled(text) {
        return v; // zero-width, ambiguous-width or bidirectional characters: no agreed cell model, columns not judged
    }
    let markers = if api == Api::Custom { markers_from_events(ex, &rows) } else { markers_from_text(&rows) };
    if nonempty {
        if markers.is_empty() {
            v.push(("marker-missing".to_string(), format!("rendering {:?}", ex.out)));
            return v;
        }
        // columns are compared in absolute display cells: the text of the numbered row the marker
        // refers to starts at that row's own text column
        let first_col = rows[labelled[0].0].text_col as isize;
        let last_col = rows[labelled[labelled.len() - 1].0].text_col as isize;
        let (lo, hi) = cells_of(text, c.a);
        let m0 = &markers[0];
        let m0col = m0.abs - first_col;
        if !(lo <= m0col && m0col < hi) {
            v.push(("marker-first-wrong".to_string(), format!("first marker starts at cell {m0col}, first character occupies [{lo},{hi})")));
        }
        let last_char_start = text[..c.b].char_indices().last().map(|(i, _)| i).unwrap();
        let (lo, hi) = cells_of(text, last_char_start);
        let m1 = &markers[markers.len() - 1];
        let end = m1.abs - last_col + m1.width as isize - 1;
        if !(lo <= end && end < hi) {
            v.push(("marker-last-wrong".to_string(), format!("last marker ends at cell {end}, last character occupies [{lo},{hi})")));
        }
        // a marker must sit in a row adjacent to (or in) the numbered block
        let _ = m0.row;
    } else if c.a < text.len() {
        // Position or empty span before end of input: a (non-empty) marker points at the character at the offset
        if c.is_pos && markers.is_empty() {
            v.push(("marker-missing".to_string(), format!("rendering {:?}", ex.out)));
            return v;
        }
        if let Some(m0) = markers.first() {
            let (lo, hi) = cells_of(text, c.a);
            let m0col = m0.abs - rows[labelled[0].0].text_col as isize;
            if !(lo <= m0col && m0col < hi) {
                v.push(("marker-first-wrong".to_string(), format!("marker starts at cell {m0col}, character at the offset occupies [{lo},{hi})")));
            }
        }
    }
    v
}

/// Is every character of `text` one whose display cells the oracle's table models (and unicode-width agrees on)?
pub fn cells_are_modelled(text: &str) -> bool {
    text.chars().all(|c| !crate::EXOTIC.contains(&c))
}

/// Decorating callbacks: the output text is not parsed. What the callbacks were HANDED is judged: the line numbers given to the
/// number callback (strictly increasing, in range, first/last as the property says) and, per numbered row, the concatenation of
/// the texts handed to the span callback must be a piece of that line's picture text.
fn judge_decor(c: &Case, ex: &Exec) -> Vec<(String, String)> {
    let mut v = Vec::new();
    let text = c.text.as_str();
    let ls = lines(text);
    let mut labels: Vec<(usize, usize)> = Vec::new(); // (event index, label)
    for (i, e) in ex.events.iter().enumerate() {
        if e.channel == 2 {
            let t = e.text.trim();
            if !t.is_empty() && t.bytes().all(|b| b.is_ascii_digit()) {
                if let Ok(n) = t.parse() {
                    labels.push((i, n));
                }
            }
        }
    }
    if ls.is_empty() {
        return v;
    }
    if labels.is_empty() {
        v.push(("no-numbered-line".to_string(), "decorating option: the number callback never received a line number".to_string()));
        return v;
    }
    for w in labels.windows(2) {
        if w[1].1 <= w[0].1 {
            v.push(("label-not-increasing".to_string(), format!("{} then {}", w[0].1, w[1].1)));
        }
    }
    for (k, (ei, n)) in labels.iter().enumerate() {
        if *n < 1 || *n > ls.len() {
            v.push(("label-out-of-range".to_string(), format!("label {n} of {} lines", ls.len())));
            continue;
        }
        let (s, e) = ls[*n - 1];
        let want = vis(&text[s..e]);
        let until = labels.get(k + 1).map(|x| x.0).unwrap_or(ex.events.len());
        let given: String = ex.events[*ei..until].iter().filter(|e| e.channel == 0).map(|e| e.text.as_str()).collect();
        if !want.contains(given.as_str()) {
            v.push(("label-text-mismatch".to_string(), format!("row labelled {n}: span callback received {given:?}, line {n} is {want:?}")));
        }
    }
    let at_line_start = c.a > 0 && c.a < text.len() && text.as_bytes()[c.a - 1] == b'\n';
    let sig = |got: usize, want: usize| if at_line_start && got + 1 == want { "@line-start" } else { "" };
    let nonempty = c.b > c.a;
    let first = line_of_offset(text, c.a);
    let last = if nonempty { line_of_offset(text, c.b - 1) } else { first };
    if labels[0].1 != first + 1 {
        v.push((format!("first-line-wrong{}", sig(labels[0].1, first + 1)), format!("first numbered row is {}, first character is on line {}", labels[0].1, first + 1)));
    }
    let got = labels[labels.len() - 1].1;
    if got != last + 1 {
        v.push((format!("last-line-wrong{}", if nonempty { "" } else { sig(got, last + 1) }), format!("last numbered row is {got}, last character is on line {}", last + 1)));
    }
    v
}

pub fn judge_faulted(ex: &Exec) -> Vec<(String, String)> {
    if ex.reentries > 0 {
        return match &ex.outcome {
            Outcome::Panic(m) => vec![("panic-under-reentry".to_string(), m.clone())],
            Outcome::Cap => vec![("no-return-under-reentry".to_string(), "step cap exceeded".to_string())],
            // nothing failed, so an Err is as wrong as it is without any fault
            Outcome::Err => vec![("err-without-fault".to_string(), "display returned Err although nothing failed (re-entrant sink/callback)".to_string())],
            Outcome::Ok => vec![],
        };
    }
    match &ex.outcome {
        Outcome::Panic(m) => vec![("panic-under-fault".to_string(), m.clone())],
        Outcome::Cap => vec![("no-return-under-fault".to_string(), "step cap (10x the fault-free call count) exceeded".to_string())],
        // Err or swallowed error: the property is silent, logged only
        _ => vec![],
    }
}

/// Violations are grouped by class, panics additionally by source location and by the message with every
/// input-specific part (digits, quoted text) removed.
pub fn group_key(class: &str, detail: &str) -> String {
    if class.starts_with("panic") {
        let (msg, loc) = match detail.rsplit_once(" @ ") {
            Some((m, l)) => (m, l),
            None => (detail, ""),
        };
        let mut norm = String::new();
        let mut quoted = false;
        for ch in msg.chars() {
            match ch {
                '`' | '\'' | '"' => {
                    quoted = !quoted;
                }
                _ if quoted => {}
                c if c.is_ascii_digit() => {}
                c if c.is_control() => {}
                c => norm.push(c),
            }
        }
        let norm: String = norm.split_whitespace().take(8).collect::<Vec<_>>().join(" ");
        // the location's file name only: scratch copies live under other directories
        let loc = loc.rsplit('/').next().unwrap_or(loc);
        format!("{class}: {norm} @ {loc}")
    } else {
        class.to_string()
    }
}
