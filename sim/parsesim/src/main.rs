#![recursion_limit = "1024"]
//! parsesim — deterministic simulation of call histories against derive-generated parsers (C18, C20 clause 2).
//!
//!   list                               grammars, rules, kinds (JSON)
//!   gen  --seed N                      the scenario drawn from N (JSON)
//!   exec --seed N | --scenario FILE [--verbose]
//!                                      run a history; prints OP / OBS / VIOL / PROBE lines
//!   one  JSON                          a single operation alone, first, in this fresh process (the reference of I1)
//!   fanout --jobs N --file CMDS        run one fresh child process of this binary per line of CMDS (tab-separated args),
//!                                      clean environment, ASLR off; prints BEGIN i / child stdout / END i code
mod exec;
mod rng;
mod scen;
mod table;

include!(concat!(env!("OUT_DIR"), "/gen.rs"));

use scen::{Op, Scenario};
use serde_json::{json, Value};
use std::io::{Read, Write};
use std::os::unix::process::CommandExt;
use std::process::{Command, Stdio};
use std::sync::atomic::{AtomicUsize, Ordering};
use std::sync::Mutex;
use table::{Entry, Form};

const ADDR_NO_RANDOMIZE: libc::c_ulong = 0x0040000;

/// Address-space layout is part of the simulated environment: switch ASLR off and re-exec once.
fn ensure_no_aslr() {
    unsafe {
        let cur = libc::personality(0xffffffff);
        if cur == -1 || (cur as libc::c_ulong) & ADDR_NO_RANDOMIZE != 0 {
            return;
        }
        if std::env::var_os("PARSESIM_REEXEC").is_some() {
            return; // could not switch it off; go on (nothing printed depends on addresses)
        }
        if libc::personality(cur as libc::c_ulong | ADDR_NO_RANDOMIZE) == -1 {
            return;
        }
        let exe = std::path::PathBuf::from("/proc/self/exe"); // survives a rebuild that replaces the binary on disk
        let args: Vec<String> = std::env::args().skip(1).collect();
        let err = Command::new(exe).args(args).env("PARSESIM_REEXEC", "1").exec();
        eprintln!("HARNESS-ERROR re-exec failed: {err}");
        std::process::exit(2);
    }
}

thread_local! {
    static LAST_PANIC: std::cell::RefCell<String> = std::cell::RefCell::new(String::new());
}
pub fn take_panic_message() -> String {
    LAST_PANIC.with(|p| std::mem::take(&mut *p.borrow_mut()))
}
fn quiet_panics() {
    std::panic::set_hook(Box::new(|info| {
        let msg = if let Some(s) = info.payload().downcast_ref::<&str>() {
            s.to_string()
        } else if let Some(s) = info.payload().downcast_ref::<String>() {
            s.clone()
        } else {
            "<non-string payload>".to_string()
        };
        let loc = info.location().map(|l| format!("{}:{}", l.file(), l.line())).unwrap_or_default();
        LAST_PANIC.with(|p| *p.borrow_mut() = format!("{msg} @ {loc}"));
    }));
}

fn arg(args: &[String], name: &str) -> Option<String> {
    args.iter().position(|a| a == name).and_then(|i| args.get(i + 1)).cloned()
}

fn print_report(r: &exec::Report) {
    let out = std::io::stdout();
    let mut w = out.lock();
    for l in r.lines.iter() {
        writeln!(w, "{l}").unwrap();
    }
    for v in r.violations.iter() {
        writeln!(w, "VIOL {v}").unwrap();
    }
    let p = &r.probes;
    writeln!(
        w,
        "PROBE {}",
        json!({"address_reuse_after_drop": p.address_reuse_after_drop, "push_leaving_before_peek": p.push_leaving_before_peek,
               "failure_after_failure": p.failure_after_failure, "eq_true_pairs_between_different_ops": p.eq_true_pairs_between_different_ops,
               "eq_false_pairs_same_first_element": p.eq_false_pairs_same_first_element, "pairs_compared": p.pairs_compared,
               "inner_pairs_compared": p.inner_pairs_compared, "ops_on_other_threads": p.ops_on_other_threads,
               "successes": p.successes, "failures": p.failures, "skipped_ops": p.skipped_ops,
               "refills": p.refills, "clone_from_checked": p.clone_from_checked, "big_input_successes": p.big_input_successes, "same_address_and_length_new_content": p.same_address_and_length_new_content, "reparse_checked": p.reparse_checked, "clone_checked": p.clone_checked, "max_live_results": p.max_live_results})
    )
    .unwrap();
}

fn cmd_fanout(args: &[String]) -> i32 {
    let jobs: usize = arg(args, "--jobs").and_then(|s| s.parse().ok()).unwrap_or(16).max(1);
    let file = arg(args, "--file").expect("--file");
    let timeout_ms: u64 = arg(args, "--timeout-ms").and_then(|s| s.parse().ok()).unwrap_or(900_000);
    let text = std::fs::read_to_string(&file).expect("read cmds");
    let cmds: Vec<&str> = text.lines().collect();
    let exe = std::path::PathBuf::from("/proc/self/exe"); // survives a rebuild that replaces the binary on disk
    let next = AtomicUsize::new(0);
    let results: Mutex<Vec<Option<(i32, Vec<u8>)>>> = Mutex::new(vec![None; cmds.len()]);
    std::thread::scope(|s| {
        for _ in 0..jobs {
            s.spawn(|| loop {
                let i = next.fetch_add(1, Ordering::Relaxed);
                if i >= cmds.len() {
                    break;
                }
                let a: Vec<&str> = cmds[i].split('\t').collect();
                let out = Command::new(&exe).args(&a).env_clear().stdin(Stdio::null()).stderr(Stdio::piped()).stdout(Stdio::piped()).spawn();
                let rec = match out {
                    Ok(mut child) => {
                        // stdout/stderr are drained by two helper threads so that a chatty child cannot block on a full pipe
                        // while this thread watches the clock: a child that does not come back within the limit is killed and
                        // reported as TIMEOUT (termination is not a property these checks judge; the driver exits 2)
                        let mut so = child.stdout.take().unwrap();
                        let mut se = child.stderr.take().unwrap();
                        let t1 = std::thread::spawn(move || {
                            let mut b = Vec::new();
                            so.read_to_end(&mut b).ok();
                            b
                        });
                        let t2 = std::thread::spawn(move || {
                            let mut b = Vec::new();
                            se.read_to_end(&mut b).ok();
                            b
                        });
                        let start = std::time::Instant::now();
                        let mut timed_out = false;
                        let code = loop {
                            match child.try_wait() {
                                Ok(Some(st)) => break st.code().unwrap_or(-1),
                                Ok(None) => {
                                    if start.elapsed().as_millis() as u64 > timeout_ms {
                                        child.kill().ok();
                                        child.wait().ok();
                                        timed_out = true;
                                        break -9;
                                    }
                                    std::thread::sleep(std::time::Duration::from_millis(2));
                                }
                                Err(_) => break -1,
                            }
                        };
                        let mut buf = t1.join().unwrap_or_default();
                        let ebuf = t2.join().unwrap_or_default();
                        if timed_out {
                            buf.extend_from_slice(b"TIMEOUT\n");
                        }
                        if !ebuf.is_empty() {
                            for l in String::from_utf8_lossy(&ebuf).lines() {
                                buf.extend_from_slice(format!("STDERR {l}\n").as_bytes());
                            }
                        }
                        (code, buf)
                    }
                    Err(e) => (-2, format!("STDERR spawn failed: {e}\n").into_bytes()),
                };
                results.lock().unwrap()[i] = Some(rec);
            });
        }
    });
    let out = std::io::stdout();
    let mut w = out.lock();
    for (i, r) in results.into_inner().unwrap().into_iter().enumerate() {
        let (code, buf) = r.unwrap();
        writeln!(w, "BEGIN {i}").unwrap();
        w.write_all(&buf).unwrap();
        if !buf.ends_with(b"\n") && !buf.is_empty() {
            writeln!(w).unwrap();
        }
        writeln!(w, "END {i} {code}").unwrap();
    }
    0
}

fn main() {
    let args: Vec<String> = std::env::args().skip(1).collect();
    if args.is_empty() {
        eprintln!("usage: parsesim list|gen|exec|one|fanout ...");
        std::process::exit(2);
    }
    let code = match args[0].as_str() {
        "fanout" => cmd_fanout(&args),
        "list" => {
            let gs = grammars();
            let v: Vec<Value> = gs
                .iter()
                .map(|g| json!({"name": g.name, "rules": g.entries.iter().map(|e| json!({"rule": e.rule, "kind": format!("{:?}", e.kind), "rep_skip": e.rep_skip})).collect::<Vec<_>>(), "seeds": g.seeds.len()}))
                .collect();
            println!("{}", serde_json::to_string(&v).unwrap());
            0
        }
        "gen" => {
            let seed: u64 = arg(&args, "--seed").and_then(|s| s.parse().ok()).expect("--seed");
            let gs = grammars();
            println!("{}", serde_json::to_string_pretty(&scen::generate(seed, &gs).to_json()).unwrap());
            0
        }
        "exec" => {
            ensure_no_aslr();
            let gs = grammars();
            let sc = if let Some(seed) = arg(&args, "--seed") {
                scen::generate(seed.parse().expect("seed"), &gs)
            } else {
                let p = arg(&args, "--scenario").expect("--seed or --scenario");
                let j: Value = serde_json::from_str(&std::fs::read_to_string(&p).expect("read scenario")).expect("scenario json");
                match Scenario::from_json(&j) {
                    Some(s) => s,
                    None => {
                        eprintln!("HARNESS-ERROR malformed scenario");
                        std::process::exit(2);
                    }
                }
            };
            quiet_panics();
            let verbose = args.iter().any(|a| a == "--verbose");
            let r = std::thread::Builder::new().stack_size(exec::STACK_BYTES).spawn(move || exec::execute(&sc, &gs, verbose)).expect("spawn").join().expect("executor thread");
            print_report(&r);
            0
        }
        "one" => {
            ensure_no_aslr();
            let gs = grammars();
            let j: Value = serde_json::from_str(&args[1]).expect("op json");
            let text = j["text"].as_str().expect("text").to_string();
            let op = Op::Parse {
                id: 0,
                slot: 0,
                g: j["grammar"].as_str().expect("grammar").to_string(),
                rule: j["rule"].as_str().expect("rule").to_string(),
                entry: Entry::from_name(j["entry"].as_str().expect("entry")).expect("entry name"),
                form: Form::from_name(j["form"].as_str().expect("form")).expect("form name"),
                a: j["a"].as_u64().expect("a") as usize,
                b: j["b"].as_u64().expect("b") as usize,
                thread: 0,
            };
            quiet_panics();
            let sc = Scenario { seed: 0, heap_pre: (0, 0), threads: 1, ops: vec![Op::New { slot: 0, text, reuse: false }, op] };
            let verbose = args.iter().any(|a| a == "--verbose");
            let r = std::thread::Builder::new().stack_size(exec::STACK_BYTES).spawn(move || exec::execute(&sc, &gs, verbose)).expect("spawn").join().expect("executor thread");
            print_report(&r);
            0
        }
        _ => 2,
    };
    std::process::exit(code);
}
