"""C14 — displaying any Span or Position never panics and marks the right text.

Deciding step: seeded fault injection into the formatter's sink and callbacks (runner sim/fmtsim).
The fault-free configuration is compared with a reference model of the property text.
"""
import json
import os
import subprocess

from . import common as C

PROP = "C14"


def _match_known(v, known):
    for k in known:
        if k["match"].get("class") == v["group"]:
            return k
    return None


def replay_file(binary, path):
    """Re-execute a replay file in a fresh process: 1 = reproduced, 0 = not, 2 = harness error."""
    p = subprocess.run([binary, "replay", path], stdout=subprocess.PIPE, stderr=subprocess.STDOUT, text=True)
    return p.returncode, p.stdout


def run(tier, seed):
    t = C.Timer()
    binary = C.require_build("fmtsim")
    out = os.path.join(C.build_root(), "fmtsim-result-%s.json" % tier)
    try:
        p = subprocess.run([binary, "run", "--seed", str(seed), "--tier", tier, "--threads", str(C.jobs()), "--out", out],
                           stdout=subprocess.PIPE, stderr=subprocess.STDOUT, text=True, timeout={"quick": 1800, "thorough": 14400}[tier])
    except subprocess.TimeoutExpired:
        # a retry loop under a fault is caught inside the simulator by the step cap; a display call that never returns and never
        # writes cannot be interrupted in-process. Reported as a harness error with the budget, not as a violation.
        raise C.HarnessError("fmtsim did not finish within its wall-clock budget (normal: seconds to minutes)")
    if p.returncode != 0:
        raise C.HarnessError("fmtsim run failed (%d):\n%s" % (p.returncode, p.stdout[-2000:]))
    r = json.load(open(out))
    known = C.known_for(PROP)
    new_violations = []
    known_hits = []
    for v in r["violations"]:
        name = C.safe_name("%s-seed%d-%s.json" % (tier, seed, v["group"]))
        path = C.replay_path(PROP, name)
        doc = {k: v[k] for k in ("property", "class", "detail", "case", "api", "plan", "group", "count", "original")}
        doc["seed"] = seed
        doc["tier"] = tier
        doc["replay_cmd"] = "./check replay " + path
        json.dump(doc, open(path, "w"), indent=1, ensure_ascii=False)
        rc, txt = replay_file(binary, path)
        if rc != 1:
            raise C.HarnessError("violation %s did not reproduce from its replay file %s in a fresh process:\n%s" % (v["group"], path, txt))
        k = _match_known(v, known)
        if k is not None:
            known_hits.append((k, v, path))
        else:
            new_violations.append((v, path))
    for k, v, path in known_hits:
        C.say("KNOWN-FINDING: property=%s %s [class=%s, %d cases this run, minimal: %s]" % (
            PROP, k["what"], v["group"], v["count"], json.dumps(v["case"], ensure_ascii=False)[:200]))
    for v, path in new_violations:
        C.say("VIOLATION property=%s replay=%s" % (PROP, path))
        C.say("  class=%s cases=%d api=%s fault=%s" % (v["group"], v["count"], v["api"], json.dumps(v["plan"])))
        shown = json.dumps(v["case"], ensure_ascii=False)
        C.say("  minimal case: %s" % (shown if len(shown) < 300 else shown[:300] + "... (%d bytes, full text in the replay file)" % len(v["case"]["text"].encode())))
        C.say("  %s" % v["detail"][:400])
    wall = t.s()
    ex = r["executions"]
    coverage = {
        "evaluations": ex,
        "distinct_nontrivial": r["distinct_nontrivial"],
        "rule": ("case = (text, span|position, api in {to_string, write!, display(default), display(custom recording option), display(custom decorating option), write! with width/fill/precision/alternate flags}); "
                 "all strings of <= %d chars over {LF,CR,TAB,a,wide,2-byte} x all spans and positions are enumerated, "
                 "longer strings (<= 9 chars) long texts (up to ~1200 lines), a few huge texts (10 000+ lines), texts with one very wide line (70 .. 132 000 characters, crossing 2^8/2^15/2^16/2^17 cells) and texts with characters that have no agreed cell model (columns not judged there) are drawn from the seed; every case runs fault-free under all "
                 "six APIs against the reference model, then with one injected fault per execution (k-th sink write or k-th callback call fails, "
                 "transient or sticky, before or after writing). distinct_nontrivial counts distinct (text, start, end, kind) cases whose text is empty or "
                 "contains a non-'a' character, or whose span touches end of input or a line start; sampled cases are de-duplicated by hash."
                 % r["exhaustive_max_len"]),
        "samples": r["samples"],
        "exhaustive": False,
        "exhaustive_part": "fault-free configuration over all strings of <= %d chars (%d strings) x all spans/positions x 4 APIs" % (
            r["exhaustive_max_len"], r["exhaustive_strings"]),
        "cases": r["cases"],
        "fault_free_executions": r["fault_free_executions"],
        "faulted_executions": r["faulted_executions"],
        "faults_fired": r["faults_fired"],
        "under_fault": r["under_fault"],
        "probes": r["probes"],
        "runs_per_hour": int(ex / max(wall, 1e-9) * 3600),
        "simulated_time": "none: the formatter has no clock, timer or deadline; time is not a dimension of this simulation",
        "real_components": ["pest_typed::formatter (display_span, display_position, all snippet renderers)", "Span::display / Position::display / Display impls",
                            "core::fmt::Formatter", "unicode-width"],
        "stubbed_components": ["the caller's fmt::Write sink (SimWriter)", "the three caller-supplied formatter callbacks (recording, fault-injecting)"],
        "known_findings_hit": [{"class": v["group"], "cases": v["count"]} for _, v, _ in known_hits],
        "clauses": {"returns without panicking (default or custom option)": "decided by the fault search (F-invariants) and by the fault-free runs",
                    "line numbers / line text / first and last line / marker cells": "carried by the fault-free configuration's reference-model comparison (R-invariants); no fault dimension"},
    }
    C.write_evidence(PROP, tier, seed, "fault_enumeration", coverage,
                     ["the reference model reads 'line' as a maximal piece ending in LF and measures display cells with its own width table, "
                      "checked at start-up against unicode-width (width and width_cjk) for every character the generators emit",
                      "row layout 'number | text' as pinned by the crate's 17 snapshot tests is used to locate numbers and text",
                      "one fault per execution; under a fault only 'returns, no panic' is judged"],
                     wall, len(new_violations))
    return 1 if new_violations else 0


def replay(path):
    binary = C.require_build("fmtsim")
    rc, txt = replay_file(binary, path)
    C.say(txt.rstrip())
    if rc == 1:
        C.say("VIOLATION property=%s replay=%s" % (PROP, path))
    return rc
