#!/bin/bash
# False-alarm sweep: every quick check must exit 0 on the unchanged tree for VERIF_SEED = FROM..TO.
# usage: tools/seed_sweep.sh [FROM] [TO] [props...]
cd "$(dirname "$0")/.."
FROM=${1:-1}; TO=${2:-100}; shift 2 2>/dev/null
PROPS=${@:-C14 C18 C20}
./check setup >/dev/null || { echo "setup failed"; exit 2; }
bad=0
for p in $PROPS; do
  for s in $(seq $FROM $TO); do
    out=$(VERIF_SEED=$s ./check $p --tier quick 2>&1); rc=$?
    if [ $rc -ne 0 ] || echo "$out" | grep -q '^VIOLATION'; then
      echo "ALARM prop=$p seed=$s rc=$rc"; echo "$out" | grep -v KNOWN-FINDING | head -20; bad=$((bad+1))
    fi
  done
  echo "swept $p seeds $FROM..$TO alarms_so_far=$bad"
done
echo "SWEEP-DONE alarms=$bad"
[ $bad -eq 0 ]
