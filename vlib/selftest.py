"""`./check selftest [fast]` — proves the simulator itself is deterministic and that its probes are not stuck.

1. per-run event logs: 64 seeds x 2 fresh executions for parsesim (verbose log) and gensim (step digests +
   shim counters) are byte-identical; fmtsim's whole result is identical for worker counts 1/3/16;
2. whole checks: every registered quick check is run under (VERIF_JOBS, PYTHONHASHSEED) in
   {(16, 0), (3, random)} and the evidence files must agree except for wall-clock fields;
3. reach probes: a probe at zero means the workload or fault mix must change.
Exit 0 = all good, 2 = the harness is not deterministic / a probe is stuck.
"""
import concurrent.futures
import json
import os
import subprocess
import sys

from . import common as C
from . import c18, c20
from .setup import build_envshim

VOLATILE = {"wall_s", "runs_per_hour", "threads"}


def scrub(x):
    if isinstance(x, dict):
        return {k: scrub(v) for k, v in x.items() if k not in VOLATILE}
    if isinstance(x, list):
        return [scrub(v) for v in x]
    return x


def fail(msg):
    C.say("SELFTEST-FAIL: " + msg)
    return 2


def run(args):
    fast = "fast" in args
    n_seeds = 16 if fast else 64
    c18.sim_env()
    # ---- 1a. parsesim event logs
    binary = C.require_build("parsesim")
    seeds = [C.mix(C.tag("selftest"), i) for i in range(n_seeds)]
    logs = []
    for jobs in ("1", "16", "5"):
        os.environ["VERIF_JOBS"] = jobs
        res = c18.fanout(binary, [["exec", "--seed", str(s), "--verbose"] for s in seeds], "self")
        logs.append([(code, "\n".join(lines)) for (_, code, lines) in res])
    os.environ.pop("VERIF_JOBS")
    for other in logs[1:]:
        for i, (a, b) in enumerate(zip(logs[0], other)):
            if a != b:
                return fail("parsesim event log differs between two executions of seed %d" % seeds[i])
    C.say("parsesim: %d seeds x 3 executions (fan-out 1/16/5): event logs byte-identical" % n_seeds)
    # ---- 1b. gensim digests + shim counters
    shim = build_envshim()
    gbin = C.require_build("gensim")
    roots, texts, goods, bads = c20.prepare_roots()
    runs = [c20.gen_run(s, goods, bads, texts) for s in seeds]
    outs = []
    for workers in (16, 1 if fast else 4):
        with concurrent.futures.ThreadPoolExecutor(max_workers=workers) as pool:
            outs.append(list(pool.map(lambda r: c20.exec_run(gbin, shim, roots, r)[:3], runs)))
    for i, (a, b) in enumerate(zip(outs[0], outs[1])):
        if a != b:
            return fail("gensim digests or shim counters differ between two executions of seed %d:\n%s\n%s" % (seeds[i], a, b))
    C.say("gensim: %d seeds x 2 executions: step digests and shim counters identical" % n_seeds)
    # ---- 1b'. the grammar-program generator is used from pool threads: same text sequentially and concurrently
    from . import gramgen
    gs = list(range(1000, 1400))
    seq = [gramgen.grammar(x) for x in gs]
    with concurrent.futures.ThreadPoolExecutor(max_workers=16) as pool:
        for _ in range(4):
            if list(pool.map(gramgen.grammar, gs)) != seq:
                return fail("vlib/gramgen.py gives different grammars when called concurrently")
    C.say("gramgen: 400 seeds give the same grammar text sequentially and from 16 threads")
    # ---- 1c. fmtsim across worker counts
    fbin = C.require_build("fmtsim")
    results = []
    for th in ("16", "3") + (() if fast else ("1",)):
        out = os.path.join(C.build_root(), "selftest-fmt-%s.json" % th)
        p = subprocess.run([fbin, "run", "--seed", "7", "--tier", "quick", "--threads", th, "--out", out], stdout=subprocess.PIPE, stderr=subprocess.STDOUT, text=True)
        if p.returncode != 0:
            return fail("fmtsim run failed: " + p.stdout[-500:])
        results.append(scrub(json.load(open(out))))
        os.unlink(out)
    for r in results[1:]:
        if r != results[0]:
            return fail("fmtsim result depends on the worker count")
    C.say("fmtsim: result identical for %d worker counts" % len(results))
    # ---- 2. whole checks under different worker counts and PYTHONHASHSEED
    if not fast:
        for prop in ("C14", "C18", "C20"):
            evs = []
            for jobs, phs in (("16", "0"), ("3", "random")):
                env = dict(os.environ, VERIF_JOBS=jobs, PYTHONHASHSEED=phs, VERIF_SEED="3")
                p = subprocess.run([sys.executable, os.path.join(C.VERIF, "check"), prop, "--tier", "quick"], env=env, stdout=subprocess.PIPE, stderr=subprocess.STDOUT, text=True)
                if p.returncode not in (0,):
                    return fail("./check %s exited %d on the unchanged tree under jobs=%s PYTHONHASHSEED=%s:\n%s" % (prop, p.returncode, jobs, phs, p.stdout[-1500:]))
                evs.append(scrub(json.load(open(os.path.join(C.VERIF, "evidence", prop + ".json")))))
            if evs[0] != evs[1]:
                a, b = json.dumps(evs[0], sort_keys=True), json.dumps(evs[1], sort_keys=True)
                i = next(k for k in range(min(len(a), len(b))) if a[k] != b[k])
                return fail("evidence of %s differs between (jobs 16, hashseed 0) and (jobs 3, random hashseed) near: %s | %s" % (prop, a[max(0, i - 120):i + 120], b[max(0, i - 120):i + 120]))
            C.say("%s: evidence identical under worker counts 16/3 and two PYTHONHASHSEEDs" % prop)
            # restore the default-seed evidence
            subprocess.run([sys.executable, os.path.join(C.VERIF, "check"), prop, "--tier", "quick"], stdout=subprocess.PIPE, stderr=subprocess.STDOUT)
    # ---- 3. probes
    stuck = []
    for prop in ("C14", "C18", "C20"):
        ev = json.load(open(os.path.join(C.VERIF, "evidence", prop + ".json")))["coverage"]
        probes = dict(ev.get("probes", {}))
        probes.update(ev.get("faults_fired", {}))
        probes.update(ev.get("environment_kinds_applied", {}))
        for k, v in (ev.get("shim_calls_fired", {}) or {}).items():
            # clock, getpid and sched_getaffinity are interposed to *prove* the generator never asks (expected 0)
            if k not in ("clock", "getpid", "sched_getaffinity"):
                probes["shim_" + k] = v
        for k, v in probes.items():
            if isinstance(v, int) and v == 0 and k not in ("skipped_ops",):
                stuck.append("%s.%s" % (prop, k))
    if stuck:
        return fail("probes stuck at zero: " + ", ".join(stuck))
    C.say("reach probes: none stuck at zero")
    C.say("SELFTEST-OK")
    return 0
