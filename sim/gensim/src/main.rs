//! gensim — deterministic simulation of the code generator's process environment and expansion history
//! (C20, clause "the derive emits the same code on every run").
//!
//!   exec --scenario FILE [--dump-dir DIR]
//!        executes the history of expansions in FILE in this process; per step prints
//!        `STEP i <sha256 | PANIC:sha256-of-normalised-message> <length> <key json>`
//!
//! The real `pest_typed_generator::derive_typed_parser` runs; the proc_macro bridge is proc_macro2's
//! fallback implementation (as in generator/tests/generator.rs). Entropy, clock and `read` are
//! simulated by envshim.so (LD_PRELOAD), address-space layout by personality(2) + seeded heap ballast,
//! thread placement by a baton.
use pest_typed_generator::derive_typed_parser;
use proc_macro2::{Literal, TokenStream};
use quote::quote;
use serde_json::{json, Value};
use sha2::{Digest, Sha256};
use std::io::Write;
use std::os::unix::process::CommandExt;
use std::process::Command;
use std::sync::mpsc;

const ADDR_NO_RANDOMIZE: libc::c_ulong = 0x0040000;

fn ensure_no_aslr() {
    unsafe {
        let cur = libc::personality(0xffffffff);
        if cur == -1 || (cur as libc::c_ulong) & ADDR_NO_RANDOMIZE != 0 {
            return;
        }
        if std::env::var_os("GENSIM_REEXEC").is_some() {
            return;
        }
        if libc::personality(cur as libc::c_ulong | ADDR_NO_RANDOMIZE) == -1 {
            return;
        }
        let exe = std::path::PathBuf::from("/proc/self/exe"); // survives a rebuild that replaces the binary on disk
        let args: Vec<String> = std::env::args().skip(1).collect();
        let err = Command::new(exe).args(args).env("GENSIM_REEXEC", "1").exec();
        eprintln!("HARNESS-ERROR re-exec failed: {err}");
        std::process::exit(2);
    }
}

#[derive(Clone)]
struct Step {
    name: String,
    /// "file": `path` is relative to CARGO_MANIFEST_DIR; "inline": `text` is the grammar
    source: String,
    path: String,
    text: String,
    options: Vec<String>,
    include_grammar: bool,
    thread: usize,
    /// name (and generics) of the struct the derive sits on, e.g. "Parser", "MyGrammar<'a, T>"
    struct_decl: String,
    /// inline sources only: the grammar text is handed over in this many `#[grammar_inline]` attributes (split at rule boundaries)
    pieces: usize,
    /// option attributes before (false) or after (true) the grammar attributes
    options_last: bool,
}

fn sha(s: &str) -> String {
    let mut h = Sha256::new();
    h.update(s.as_bytes());
    h.finalize().iter().map(|b| format!("{b:02x}")).collect()
}

/// Split a grammar text into `n` pieces at line boundaries that start a rule (concatenated they are the original text).
fn split_grammar(text: &str, n: usize) -> Vec<String> {
    let starts: Vec<usize> = text
        .match_indices('\n')
        .map(|(i, _)| i + 1)
        .filter(|i| {
            let rest = &text[*i..];
            let first = rest.chars().next();
            matches!(first, Some(c) if c.is_alphabetic() || c == '_') && rest.lines().next().map(|l| l.contains('=')).unwrap_or(false)
        })
        .collect();
    if n <= 1 || starts.is_empty() {
        return vec![text.to_string()];
    }
    let mut cuts: Vec<usize> = Vec::new();
    for k in 1..n {
        let c = starts[(k * starts.len() / n).min(starts.len() - 1)];
        if !cuts.contains(&c) {
            cuts.push(c);
        }
    }
    let mut out = Vec::new();
    let mut prev = 0;
    for c in cuts {
        out.push(text[prev..c].to_string());
        prev = c;
    }
    out.push(text[prev..].to_string());
    out
}

fn derive_input(step: &Step) -> TokenStream {
    let mut grammar = TokenStream::new();
    if step.source == "file" {
        // one derive may name several grammar files; they are concatenated in attribute order
        let paths: Vec<String> = if step.pieces > 1 { (0..step.pieces).map(|k| step.path.replace(".pest", &format!(".{}-{}.pest", step.pieces, k))).collect() } else { vec![step.path.clone()] };
        for p in paths {
            let p = Literal::string(&p);
            grammar.extend(quote! { #[grammar = #p] });
        }
    } else {
        for piece in split_grammar(&step.text, step.pieces.max(1)) {
            let t = Literal::string(&piece);
            grammar.extend(quote! { #[grammar_inline = #t] });
        }
    }
    let mut options = TokenStream::new();
    for o in step.options.iter() {
        let ts: TokenStream = format!("#[{o}]").parse().expect("option attribute");
        options.extend(ts);
    }
    let decl: TokenStream = format!("struct {};", if step.struct_decl.is_empty() { "Parser" } else { step.struct_decl.as_str() }).parse().expect("struct declaration");
    if step.options_last {
        quote! { #grammar #options #decl }
    } else {
        quote! { #options #grammar #decl }
    }
}

thread_local! {
    static LAST_PANIC: std::cell::RefCell<String> = std::cell::RefCell::new(String::new());
}

fn run_step(step: &Step) -> Result<String, String> {
    let input = derive_input(step);
    let inc = step.include_grammar;
    match std::panic::catch_unwind(move || derive_typed_parser(input, inc, true).to_string()) {
        Ok(s) => Ok(s),
        Err(_) => Err(LAST_PANIC.with(|p| std::mem::take(&mut *p.borrow_mut()))),
    }
}

type Job = Box<dyn FnOnce() -> Result<String, String> + Send>;

fn main() {
    let args: Vec<String> = std::env::args().skip(1).collect();
    let arg = |name: &str| args.iter().position(|a| a == name).and_then(|i| args.get(i + 1)).cloned();
    if args.first().map(|s| s.as_str()) != Some("exec") {
        eprintln!("usage: gensim exec --scenario FILE [--dump-dir DIR]");
        std::process::exit(2);
    }
    ensure_no_aslr();
    let path = arg("--scenario").expect("--scenario");
    let dump_dir = arg("--dump-dir");
    let j: Value = serde_json::from_str(&std::fs::read_to_string(&path).expect("read scenario")).expect("scenario json");
    let mut steps = Vec::new();
    for s in j["steps"].as_array().expect("steps") {
        steps.push(Step {
            name: s["name"].as_str().unwrap_or("").to_string(),
            source: s["source"].as_str().unwrap_or("file").to_string(),
            path: s["path"].as_str().unwrap_or("").to_string(),
            text: s["text"].as_str().unwrap_or("").to_string(),
            options: s["options"].as_array().map(|a| a.iter().filter_map(|x| x.as_str().map(|x| x.to_string())).collect()).unwrap_or_default(),
            include_grammar: s["include_grammar"].as_bool().unwrap_or(false),
            thread: s["thread"].as_u64().unwrap_or(0) as usize,
            struct_decl: s["struct_decl"].as_str().unwrap_or("Parser").to_string(),
            pieces: s["pieces"].as_u64().unwrap_or(1) as usize,
            options_last: s["options_last"].as_bool().unwrap_or(true),
        });
    }
    // seeded heap ballast: shifts every later heap address
    let mut ballast: Vec<Vec<u8>> = Vec::new();
    if let Some(hp) = j["heap_pre"].as_array() {
        let (n, size) = (hp[0].as_u64().unwrap_or(0) as usize, hp[1].as_u64().unwrap_or(0) as usize);
        for i in 0..n {
            ballast.push(vec![i as u8; size]);
        }
    }
    std::panic::set_hook(Box::new(|info| {
        let msg = if let Some(s) = info.payload().downcast_ref::<&str>() {
            s.to_string()
        } else if let Some(s) = info.payload().downcast_ref::<String>() {
            s.clone()
        } else {
            "<non-string payload>".to_string()
        };
        LAST_PANIC.with(|p| *p.borrow_mut() = msg);
    }));
    // persistent worker threads 1..=3; thread 9 = a freshly spawned thread per step; thread 0 = main
    let (rtx, rrx) = mpsc::channel::<Result<String, String>>();
    let mut workers: Vec<mpsc::Sender<Job>> = Vec::new();
    for _ in 0..3 {
        let (jtx, jrx) = mpsc::channel::<Job>();
        let rtx = rtx.clone();
        std::thread::spawn(move || {
            while let Ok(job) = jrx.recv() {
                if rtx.send(job()).is_err() {
                    break;
                }
            }
        });
        workers.push(jtx);
    }
    let root = std::env::var("CARGO_MANIFEST_DIR").unwrap_or_default();
    let out = std::io::stdout();
    for (i, step) in steps.iter().enumerate() {
        let st = step.clone();
        let r = match step.thread {
            0 => run_step(&st),
            1..=3 => {
                workers[step.thread - 1].send(Box::new(move || run_step(&st))).expect("worker");
                rrx.recv().expect("worker result")
            }
            _ => std::thread::spawn(move || run_step(&st)).join().expect("fresh thread"),
        };
        let key = json!({"name": step.name, "source": step.source, "options": step.options, "include_grammar": step.include_grammar,
            "struct_decl": step.struct_decl, "pieces": step.pieces, "options_last": step.options_last});
        let mut w = out.lock();
        match &r {
            Ok(code) => {
                writeln!(w, "STEP {i} {} {} {}", sha(code), code.len(), key).unwrap();
            }
            Err(msg) => {
                // absolute locations are legitimately part of some messages; normalise the manifest root away
                let norm = if root.is_empty() { msg.clone() } else { msg.replace(&root, "<ROOT>") };
                // the property speaks about emitted code; for a rejected grammar only "rejected, with these diagnostics"
                // is compared, not the order in which a validator happens to list several diagnostics
                let mut lines: Vec<&str> = norm.lines().collect();
                lines.sort();
                let norm = lines.join("\n");
                writeln!(w, "STEP {i} PANIC:{} {} {}", sha(&norm), norm.len(), key).unwrap();
            }
        }
        if let Some(d) = &dump_dir {
            let body = match &r {
                Ok(c) => c.clone(),
                Err(m) => format!("PANIC: {m}"),
            };
            std::fs::write(format!("{d}/step{i}.txt"), body).ok();
        }
    }
    drop(ballast);
}
