#[derive(Clone, Copy)]
pub struct SplitMix(pub u64);
impl SplitMix {
    pub fn next(&mut self) -> u64 {
        self.0 = self.0.wrapping_add(0x9E3779B97F4A7C15);
        let mut z = self.0;
        z = (z ^ (z >> 30)).wrapping_mul(0xBF58476D1CE4E5B9);
        z = (z ^ (z >> 27)).wrapping_mul(0x94D049BB133111EB);
        z ^ (z >> 31)
    }
    pub fn below(&mut self, n: usize) -> usize {
        if n == 0 {
            0
        } else {
            (self.next() % n as u64) as usize
        }
    }
    pub fn chance(&mut self, num: u64, den: u64) -> bool {
        self.next() % den < num
    }
}
